#!/bin/bash
# Apply a behaviour-preserving patch in a scratch worktree and run every claimed check against it:
# any VIOLATION is a false alarm.  usage: tools/harmless_check.sh <patch.diff> [props...]
patch=$1; shift
props="$@"
[ -z "$props" ] && props=$(python3 -c "import json;print(' '.join(c['property_id'] for c in json.load(open('/verif/MANIFEST.json'))['checks']))")
work=$(mktemp -d /tmp/hc.XXXXXX)
git -C /repo worktree add --detach -q $work/wt HEAD || exit 2
if ! git -C $work/wt apply $patch; then echo "PATCH DOES NOT APPLY"; git -C /repo worktree remove --force $work/wt; rm -rf $work; exit 2; fi
mkdir -p $work/v; cp -r /verif/known_findings.json /verif/claims /verif/bounded $work/v/
n=0
for p in $props; do
  out=$(GOFLAGS=-mod=mod GOPROXY=off GOSUMDB=off GOTOOLCHAIN=local /verif/bin/gvc check -prop $p -repo $work/wt -verif $work/v 2>&1 | grep -E '^VIOLATION' | sed 's/replay=[^ ]* //' | cut -c1-260)
  if [ -n "$out" ]; then echo "== $p"; echo "$out"; n=$((n+1)); fi
  rb=$(python3 -c "
import json
d=json.load(open('$work/v/evidence/$p.json')); r=d['coverage'].get('locals_rebound')
if r: print(r)" 2>/dev/null)
  [ -n "$rb" ] && echo "   ($p rebound: $rb)"
done
echo "false alarms in $n properties ($(basename $patch))"
git -C /repo worktree remove --force $work/wt; git -C /repo worktree prune; rm -rf $work
