#!/bin/bash
# regenerate claims/<id>.txt and evidence for every property claimed in MANIFEST.json
cd /verif
for p in $(python3 -c "import json;print(' '.join(c['property_id'] for c in json.load(open('MANIFEST.json'))['checks']))"); do
  ./bin/gvc check -prop $p -update-claims 2>&1 | tail -1
done
