#!/usr/bin/env python3
"""Copy /verif/seeded/RESULTS.md (with a short description per seed) into DESIGN.md section 10."""
import re
desc={'C02-1':'flattenLocations filters in place (locs[:0])','C02-2':'Ranged.Shift rebuilds the range and loses the 5\' marker of a both-ends-partial range','C03-1':'Ambiguous.Expand clamp','C03-2':'Between.Expand drops the Max clamp','C04-1':'Ranged.Normalize wrap loses a partial flag','C04-2':'Rotate skips Normalize unless the location reaches the end','C05-1':'Ranged.Reverse early return','C05-2':'Ordered.Reverse two-pointer swap skips the middle part','C06-1':'flattenLocations reuses the argument array','C06-2':'Push: a point abutting the start of the next range is swallowed under force','C07-1':'slow ORIGIN reader `<=` -> `<` (index past end)','C07-2':'REFERENCE padding guard removed (negative Repeat count)','C08-1':'HeadTail.Apply on the complement strand','C08-2':'Regions.Resize left==k/right==k guards removed','C09-1':'Minimize merge drops Max','C09-2':'BySegment.Less normalisation flipped','C10-1':'Push merge loses the tail 3\' marker','C10-2':'Concat shifts later pieces by Len(head)','C11-1':'Delete appends into the argument','C11-2':'Joined.Expand returns the receiver for n == 0','C12-1':'Push: parentheses removed, abut test only under force','C12-2':'Repair: force only if the source class starts at index 0','C13-1':'body digest skips the trailing partial block','C13-2':'Validate compares the root digest with EqualFold','C14-1':'locators sorted only for the cache key','C14-2':'sort keys the cache on -F instead of the detected file type','C15-1':'Minimize merge keeps the first end','C15-2':'containsRegion compares head/tail/len instead of DeepEqual','C16-1':'fromOriginLength lastLine <= 12','C16-2':'Origin.Bytes stops before a 1-residue last line','C18-1':'case mask 0x5f','C18-2':'bytesIndexAll as a bytes.Index loop skipping overlaps','C19-1':'FeatureSlice.Insert fast path','C19-2':'Qualifier: empty-query shortcut before the unnamed branch','C02-3':'insert helper reuses the host buffer when it has spare capacity (tail clobbered)','C03-3':'LocationWithin checks only the first and last part of a join','C05-3':'Regions.Complement two-pointer swap skips the middle part','C06-3':'Order switches on len(locs) instead of the flattened length','C07-3':'featureKeylineParser: strings.Repeat with a negative count','C08-3':'locationLocator shares one list across calls (resizeLocator rewrites it)','C09-3':'InvertCircular inspects the unsorted flattened segments','C11-3':'insert helper as append(p[:pos], append(q, p[pos:]...)...)','C13-3':'Close writes a provisional header first (moves the file offset)','C14-3':'insert digests parsed guest residues instead of the raw guest file','C16-3':'Origin.Len returns 0 for buffers of <= 12 bytes','C19-3':'Selector skips empty clauses','C02-4':'mergeGuest fast path skips relocating guest features when the host table is empty','C03-4':'Slice: negative end no longer normalised (takes the rotate path)','C04-3':'Ambiguous.Normalize takes End % length','C06-4':'parseRange resets the 3\' marker when anything follows the range','C08-4':'resizeLocator skips zero-length regions','C09-4':'invertSegments gap test start+1 < s[0]','C10-3':'Point.Expand compares against p+n','C11-4':'FeatureSlice.Insert as append-then-shift (in place with spare capacity)','C12-3':'Repair class key from Props.Items() (drops valueless qualifiers)','C13-4':'CreateLevel writes a verifiable header for the empty body','C15-3':'insert reverses the sites instead of sorting them','C16-4':'NewOrigin loop bound drops a last line of one residue','C18-3':'Match: hand-rolled escape without braces','C19-4':'FeatureSlice.Less: non-source may sort before source'}
t=open('/verif/seeded/RESULTS.md').read()
out=[]
for line in t.strip().split('\n'):
    cells=[c.strip() for c in line.strip().strip('|').split('|')]
    if cells[0] in desc:
        cells[2]=cells[2]+': '+desc[cells[0]]
        cells[3]=cells[3].replace(';','; ')
        if len(cells[3])>240: cells[3]=cells[3][:240]+' …'
    out.append('| '+' | '.join(cells)+' |')
s=open('/verif/DESIGN.md').read()
b='<!-- SEEDTABLE:BEGIN -->'; e='<!-- SEEDTABLE:END -->'
if b not in s:
    # first time: replace the old table
    i=s.index('| seed | property | change |')
    j=s.index('\n\n', i)
    s=s[:i]+b+'\n'+e+s[j:]
i=s.index(b)+len(b); j=s.index(e)
s=s[:i]+'\n'+'\n'.join(out)+'\n'+s[j:]
open('/verif/DESIGN.md','w').write(s)
print(len(out)-2,'seeds in table')
