#!/usr/bin/env python3
"""Refresh the '**As built.**' blocks of DESIGN.md section 4 from MANIFEST.json."""
import re,json
m=json.load(open('/verif/MANIFEST.json'))
p='/verif/DESIGN.md'
s=open(p).read()
for c in m['checks']:
    pid=c['property_id']
    if pid in ('C12','C14','C15'): continue
    hdr=re.search(r'^### %s — .*$'%pid, s, re.M)
    if not hdr: continue
    nxt=re.search(r'^##+ ', s[hdr.end():], re.M)
    end=hdr.end()+nxt.start()
    sec=s[hdr.end():end]
    note=c['level_note']
    tb_end=note.find('of the contracts.')
    if tb_end>=0: note=note[tb_end+len('of the contracts.'):].strip()
    block="**As built.** "+c['level_claimed']['text']+"\n\n**Assumed / left out (as built).** "+note+"\n\n"
    i=sec.find('**As built.**')
    if i>=0: sec=sec[:i]
    s=s[:hdr.end()]+sec+block+s[end:]
open(p,'w').write(s)
print('ok')
