#!/bin/bash
# usage: tools/seed.sh confirm|check <seed-id> [props...]
# confirm: in a scratch worktree, run the suite with the patch, the demo with and without the patch
# check:   apply the patch to /repo, run the listed property checks, revert
set -u
export GOFLAGS=-mod=mod GOPROXY=off GOSUMDB=off GOTOOLCHAIN=local
mode=$1; id=$2; shift 2
dir=/verif/seeded/$id
case $mode in
confirm)
  wt=/tmp/seedwt_$id
  git -C /repo worktree add --detach -q $wt || exit 2
  demo=$(ls $dir/*_test.go | head -1)
  pkgdir=$(python3 -c "import json;print(json.load(open('$dir/meta.json'))['demo_pkg_dir'])")
  ( cd $wt && git apply $dir/patch.diff && echo "== suite with patch" && go build ./... && go test -count=1 ./... 2>&1 | grep -v "no test files" ;
    cp $demo $wt/$pkgdir/zz_demo_test.go && echo "== demo with patch (must FAIL)" && (cd $pkgdir && go test -count=1 -run TestSeededDemo . 2>&1 | tail -3);
    git checkout -q -- . && echo "== demo without patch (must PASS)" && (cd $pkgdir && go test -count=1 -run TestSeededDemo . 2>&1 | tail -3) )
  git -C /repo worktree remove --force $wt
  ;;
check)
  # evidence files are rewritten by every run: keep the ones from the unchanged tree
  bak=$(mktemp -d); cp -r /verif/evidence $bak/
  git -C /repo apply $dir/patch.diff || exit 2
  for p in "$@"; do echo "== $p"; (cd /verif && ./check $p quick 2>&1 | grep -E "VIOLATION|KNOWN|^property" | cut -c1-260); done
  git -C /repo checkout -- .
  git -C /repo status --short
  rm -rf /verif/evidence; cp -r $bak/evidence /verif/evidence; rm -rf $bak
  ;;
esac
