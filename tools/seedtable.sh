#!/bin/bash
# apply every seeded change in turn, run the check of its property, record which obligations fire
cd /verif
# evidence files are rewritten by every run: keep the ones from the unchanged tree
bak=$(mktemp -d); cp -r /verif/evidence $bak/
out=seeded/RESULTS.md
echo "| seed | property | change | obligations that fail (quick check) |" > $out
echo "|---|---|---|---|" >> $out
for d in seeded/*/; do
  id=$(basename $d)
  [ -f $d/patch.diff ] || continue
  prop=$(python3 -c "import json;print(json.load(open('$d/meta.json'))['property'])")
  files=$(grep '^+++ ' $d/patch.diff | sed 's/+++ b\///' | tr '\n' ' ')
  git -C /repo apply /verif/$d/patch.diff || { echo "| $id | $prop | $files | PATCH DOES NOT APPLY |" >> $out; continue; }
  res=$(./check $prop quick 2>&1 | grep '^VIOLATION' | sed 's/.*obligation=\([^ ]*\) status=\([a-z]*\).*/\1 (\2)/' | sort -u | head -6 | tr '\n' ';' )
  git -C /repo checkout -- .
  [ -z "$res" ] && res="**MISSED**"
  echo "| $id | $prop | $files | $res |" >> $out
done
git -C /repo status --short
rm -rf /verif/evidence; cp -r $bak/evidence /verif/evidence; rm -rf $bak
cat $out
