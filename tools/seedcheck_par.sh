#!/bin/bash
# Check selected seeds in scratch worktrees (does not touch /repo or /verif/evidence).
# usage: tools/seedcheck_par.sh <jobs> <seed-id>...
jobs=$1; shift
work=$(mktemp -d /tmp/scpar.XXXXXX)
one() {
  id=$1; work=$2; d=/verif/seeded/$id
  prop=$(python3 -c "import json;print(json.load(open('$d/meta.json'))['property'])")
  wt=$work/wt_$id; vd=$work/v_$id
  git -C /repo worktree add --detach -q $wt HEAD 2>/dev/null || { echo "$id WORKTREE FAILED"; return; }
  mkdir -p $vd; cp -r /verif/known_findings.json /verif/claims /verif/bounded $vd/
  if ! git -C $wt apply $d/patch.diff 2>/dev/null; then echo "$id PATCH DOES NOT APPLY" > $work/$id.out
  else
    GOFLAGS=-mod=mod GOPROXY=off GOSUMDB=off GOTOOLCHAIN=local /verif/bin/gvc check -prop $prop -repo $wt -verif $vd 2>&1 | grep -E '^VIOLATION|^property' | sed 's/.*obligation=\(.*\) status=\([a-z]*\).*/\1 (\2)/' | sort -u | head -8 > $work/$id.out
  fi
  git -C /repo worktree remove --force $wt 2>/dev/null; rm -rf $vd
}
export -f one
printf '%s\n' "$@" | xargs -P $jobs -I{} bash -c "one {} $work"
for id in "$@"; do echo "##### $id"; cat $work/$id.out; done
git -C /repo worktree prune; rm -rf $work
