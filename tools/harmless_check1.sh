#!/bin/bash
# like harmless_check.sh but with a chosen gvc binary: tools/harmless_check1.sh <gvc> <patch> <props...>
gvc=$1; patch=$2; shift 2
work=$(mktemp -d /tmp/hc.XXXXXX)
git -C /repo worktree add --detach -q $work/wt HEAD || exit 2
git -C $work/wt apply $patch || { echo "PATCH DOES NOT APPLY"; git -C /repo worktree remove --force $work/wt; rm -rf $work; exit 2; }
mkdir -p $work/v; cp -r /verif/known_findings.json /verif/claims /verif/bounded $work/v/
for p in "$@"; do
  GOFLAGS=-mod=mod GOPROXY=off GOSUMDB=off GOTOOLCHAIN=local $gvc check -prop $p -repo $work/wt -verif $work/v 2>&1 | grep -E '^VIOLATION|^property' | sed 's/replay=[^ ]* //' | cut -c1-260
done
git -C /repo worktree remove --force $work/wt; git -C /repo worktree prune; rm -rf $work
