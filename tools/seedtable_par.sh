#!/bin/bash
# Parallel variant of seedtable.sh: every seed gets its own scratch worktree of /repo and its own
# scratch verif directory, so /repo and /verif/evidence are not touched.  usage: tools/seedtable_par.sh [jobs]
jobs=${1:-3}
cd /verif
out=seeded/RESULTS.md
work=$(mktemp -d /tmp/stpar.XXXXXX)
one() {
  d=$1; work=$2
  id=$(basename $d)
  prop=$(python3 -c "import json;print(json.load(open('$d/meta.json'))['property'])")
  files=$(grep '^+++ ' $d/patch.diff | sed 's/+++ b\///' | tr '\n' ' ')
  wt=$work/wt_$id; vd=$work/v_$id
  git -C /repo worktree add --detach -q $wt HEAD 2>/dev/null || { echo "| $id | $prop | $files | WORKTREE FAILED |" > $work/$id.row; return; }
  mkdir -p $vd; cp -r /verif/known_findings.json /verif/claims /verif/bounded $vd/
  if ! git -C $wt apply /verif/$d/patch.diff 2>/dev/null; then
    echo "| $id | $prop | $files | PATCH DOES NOT APPLY |" > $work/$id.row
  else
    res=$(GOFLAGS=-mod=mod GOPROXY=off GOSUMDB=off GOTOOLCHAIN=local /verif/bin/gvc check -prop $prop -repo $wt -verif $vd 2>&1 | grep '^VIOLATION' | sed 's/.*obligation=\([^ ]*\) status=\([a-z]*\).*/\1 (\2)/' | sort -u | head -6 | tr '\n' ';')
    [ -z "$res" ] && res="**MISSED**"
    echo "| $id | $prop | $files | $res |" > $work/$id.row
  fi
  git -C /repo worktree remove --force $wt 2>/dev/null
  rm -rf $vd
}
export -f one
ls -d seeded/*/ | sed 's#/$##' | xargs -P $jobs -I{} bash -c "one {} $work"
echo "| seed | property | change | obligations that fail (quick check) |" > $out
echo "|---|---|---|---|" >> $out
for d in $(ls -d seeded/*/ | sed 's#/$##'); do cat $work/$(basename $d).row >> $out 2>/dev/null; done
git -C /repo worktree prune
rm -rf $work
grep -c MISSED $out
