#!/bin/bash
# usage: tools/collect_seed.sh <worktree-tag> <seed-id> [demo-pkg-dir]   (the demo is located automatically if no dir is given)
w=$1; id=$2; pkg=$3
if [ -z "$pkg" ]; then
  f=$(find /tmp/wt_$w -name zz_demo_test.go | head -1)
  pkg=$(dirname ${f#/tmp/wt_$w/}); [ "$pkg" = "" ] && pkg=.
fi
d=/verif/seeded/$id; mkdir -p $d
cp /tmp/wt_${w}_patch.diff $d/patch.diff
cp /tmp/wt_$w/$pkg/zz_demo_test.go $d/demo_test.go
echo "{\"property\": \"$w\", \"demo_pkg_dir\": \"$pkg\", \"origin\": \"sub-agent\"}" > $d/meta.json
/verif/tools/seed.sh confirm $id 2>&1 | grep -v "no test files" | cut -c1-120
