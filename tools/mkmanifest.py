#!/usr/bin/env python3
"""Regenerate /verif/MANIFEST.json from the table below (kept in one place so it stays valid)."""
import json, subprocess, os
V = '/verif'
ids = [json.loads(l)['id'] for l in open(f'{V}/properties.jsonl')]
hooks_commits = subprocess.run(['git','-C','/repo','log','--format=%h %s'],capture_output=True,text=True).stdout.strip().split('\n')
hook_commits = [l.split()[0] for l in hooks_commits if l.split(' ',1)[1].startswith('verif:')]

TB = ("Trusted base: the gvc VC generator (Go subset -> SMT), the SMT solvers, contracts marked 'trusted' and external "
      "contracts (listed per run in evidence.trusted_base), int treated as mathematical within the coordinate bounds of the contracts.")

claims = {
 'C09': dict(
   text="Contracts on the real Minimize, invertSegments, InvertLinear, InvertCircular, BySegment.Less/Len/Swap (+ strict-weak-order lemmas): output forward, pairwise separated, coverage sound and complete w.r.t. an uninterpreted coverage predicate (ghost witness functions for the existential halves), gaps non-empty/increasing/disjoint/covering; every loop has an inductive invariant and a variant. Proved for all inputs and iterations.",
   note=TB+" flattenRegion's contract (recursive over nested Regions) and sort.Sort's permutation/sortedness contract are assumed.",
   design='4/C09'),
 'C16': dict(
   text="For all lengths below 10^9-60: toOriginLength(n) == olen(n), fromOriginLength(olen(n)) == n, olen strictly monotone; NewOrigin writes exactly the layout (index columns, space before each group of ten, residues, newline) and Origin.Bytes reads exactly the residues back (nested loop invariants over hidden layout classes and separately proved position lemmas); Len without decoding equals the residue count; the round trip NewOrigin;Bytes is the identity (ghost lemma function); the fast validator accepts a block of the right length iff every byte is in place (both directions), the line-by-line reader returns only layout blocks, and the ORIGIN field reader accepts only a block of the declared length.",
   note=TB+" fmt.Sprintf(\"%9d\") is an assumed external contract (9 right-aligned columns for 0 <= v < 10^9, digits uninterpreted); nres is the specification inverse of olen (axiom justified by the monotonicity lemma); completeness of the slow path and Origin.String are not under contract.", design='4/C16'),
 'C05': dict(
   text="Leaf Reverse contracts (Point, Ranged, Ambiguous, Between): residue x is covered before iff L-1-x is covered after, partial flags swap; Segment.Complement; replaceBytes. Between.Reverse is a recorded known finding (off by one, pinned by a test). Wiring of the sequence-level Reverse: every feature gets Reverse(L) exactly once.",
   note=TB+" Composite (Joined/Ordered/Complemented) Reverse and the sequence-level Reverse are not yet under contract. Location values are identified by an uninterpreted value function valOf; every Location method is assumed to be a deterministic function of the receiver's value and its arguments, and locations are assumed not to be modified after they are returned.", design='4/C05'),
 'C04': dict(
   text="Leaf Normalize contracts (Point, Between, Ranged incl. the origin-spanning split with partial flags on the outer ends and the full-length case, Ambiguous when not crossing the origin), proved for all L >= 1 and all coordinates. Wiring of Rotate: every feature gets Expand(0, n mod L) and then Normalize(L), exactly once, key and qualifiers kept (ghost position map through the sorted insertions).",
   note=TB+" Join's two-range case is assumed; Rotate itself and composite Normalize are not yet under contract. Location values are identified by an uninterpreted value function valOf; every Location method is assumed to be a deterministic function of the receiver's value and its arguments, and locations are assumed not to be modified after they are returned.", design='4/C04'),
 'C08': dict(
   text="Modifier.Apply for all five forms proved exactly on both strands (incl. mirroring law and termination of the sign-flip recursion); Segment.Resize exact; Regions.Resize on regions of segments proved with a ghost prefix-sum function: each offset lands in the segment L with pre(L) < v <= pre(L+1) (first/last segment when outside), the end pieces are the exact partial segments and the pieces between are kept whole, for every number of segments and every modifier form (this exposed and repaired the >= 3 segment defect); Segment Len/Head/Tail/Complement, Abs, Compare, Unpack, Max.",
   note=TB+" Regions containing nested Regions are outside the contract; the locator constructors and the modifier text round trip are not decided; the step from the exact piece structure to 'equals the slice of the spliced sequence' is the denotational reading stated in DESIGN.md, not a separate obligation.", design='4/C08'),
 'C02': dict(
   text="Exact pointwise contracts for Shift/Expand (n >= 0) of Between, Point, Ranged, Ambiguous: covered set is the image under the insertion map, a spanning range splits into exactly two parts with partial flags on the outer ends (Shift) or extends over the guest (Expand); all i, n, coordinates. Wiring of Insert and Embed: every host feature gets Shift(index, len guest) (Insert) or Expand(index, len guest) (Embed), every guest feature Expand(0, index), each exactly once with key and qualifiers kept (ghost position maps through the sorted insertions).",
   note=TB+" Join/Order two-part cases assumed; composite locations and the sequence-level Insert/Embed not yet under contract. Location values are identified by an uninterpreted value function valOf; every Location method is assumed to be a deterministic function of the receiver's value and its arguments, and locations are assumed not to be modified after they are returned.", design='4/C02'),
 'C03': dict(
   text="Exact pointwise contracts for Expand with n < 0 (deletion) of Point, Ranged, Ambiguous, Between: survivors are exactly the images, partial flags set exactly when an end residue was cut, an emptied location becomes the site at the cut; rangeWithin/rangeOverlap. Wiring of Delete (every feature gets Expand(offset, -length), same order) and of Slice (every surviving non-source feature gets Expand(end, end-L) then Expand(0, -start)).",
   note=TB+" Composite locations, Delete/Erase/Slice and GenBankFields.Slice not yet under contract. Location values are identified by an uninterpreted value function valOf; every Location method is assumed to be a deterministic function of the receiver's value and its arguments, and locations are assumed not to be modified after they are returned.", design='4/C03'),
}
claims.update({
 'C06': dict(
   text="Join reduction: the merge table of LocationList.Push (one leaf pushed onto a one-node list) is proved to preserve the set and order of residues and the outer partial markers, to merge two ranges exactly when they abut (forced, or 3'-partial meeting 5'-partial); Join of exactly two leaf parts is proved from the real loop (unrolled, with unwinding assertion) over that contract. The pinned defect Join(4..6,7) = 4..6 is a recorded known finding.",
   note=TB+" Join over three or more parts and Order (recursive flattening) are assumed; the print/parse half of the property is not decided by this check.", design='4/C06'),
 'C10': dict(
   text="Inverse laws as ghost lemma functions verified over the callee contracts: Delete(Insert(h,i,g),i,len g) and Delete(Embed(...)) restore the host residues pointwise; Concat(Slice(s,0,c),Slice(s,c,L)) restores the residues; x.Shift(i,n).Expand(i,-n) == x for Point and Ranged at every alignment incl. the spanning case, where the split join is proved to re-merge (Joined.Expand@two + Join@two); x.Expand(i,n).Expand(i,-n) == x for Ranged. Concat of any number of pieces shifts the features of each later piece by exactly the number of residues assembled so far (call-site obligation).",
   note=TB+" Features of composite shape (joins of 3+ parts, orders, complements) and cut sets with more than one cut are not covered; interface-level Location contracts assume purity only.", design='4/C10'),
 'C11': dict(
   text="Frame obligations ('assigns nothing': every byte/feature/location cell allocated before the call reads the same afterwards, including spare capacity) proved for Insert, Embed, Delete, Erase, Rotate, Reverse, Complement, Transcribe, Concat, WithInfo/WithFeatures/WithBytes/WithTopology, FeatureSlice.Insert/Filter, Props.Clone, replaceBytes, insert, NewOrigin and the leaf location methods, with arguments allowed to share backing arrays and to have cap > len; Slice is proved to write only location part lists; Origin.Bytes writes only its own fields. Five aliasing defects were found and repaired (insert, FeatureSlice.Insert, Delete, Rotate, Concat). Ordered.Shift/Expand/Normalize over leaf parts are proved to write nothing and to return an order that owns a fresh part list.",
   note=TB+" Sequence implementations are seen through assumed pure accessors (Info/Features/Bytes); asComplete and the composite Location methods are assumed to write only fresh part lists; Repair not covered.", design='4/C11'),
 'C18': dict(
   text="Match: per-letter class obligations and literal quoting; Search: sound, complete, ascending. Complement and Transcribe proved against an independent IUPAC base-set specification for every byte value (symbolic byte, tables read from the real string literals), same case, non-alphabet bytes unchanged, Complement never produces U and Transcribe writes U for A; replaceBytes exact. BySegment order lemmas. bytesIndexAll is proved from an external contract of index/suffixarray (New/Lookup) instead of being trusted itself.",
   note=TB+" bytes.IndexByte, bytes.ToLower, sort.Sort, the suffix-array lookup (bytesIndexAll) and the regexp engine are assumed external contracts; Match is decided at the level of the class emitted per query letter (obligation at each WriteString call site: the class is exactly the letters whose base set is contained in the query's) and of quoting non-alphabet bytes, Search as exactly the case-insensitive occurrence set in ascending order (ghost completeness witness). The k row of Match is a recorded known finding.", design='4/C18'),
 'C19': dict(
   text="FeatureSlice.Filter returns exactly the accepted features, in order, unaltered (ghost index maps: sound, ordered, complete); FeatureSlice.Insert returns the input plus the new feature at one position, sources first, locally ordered w.r.t. the location order (from sort.Search's unconditional guarantee); rangeCompare/rangeWithin/rangeOverlap exact.",
   note=TB+" Filters are modelled as pure functions; LocationLess/LocationWithin/LocationOverlap are assumed pure and deterministic (recursive); regexp matching is an uninterpreted relation; selector string parsing is covered for index safety and termination only. The closures returned by And, Or, Not, Key, Within, Overlap and the three Qualifier forms are proved against the documented semantics (this exposed and repaired the unnamed-clause defect).", design='4/C19'),
})
claims.update({
 'C13': dict(
   text="Header.Validate is proved to return nil exactly when all three digests equal the expected ones (all lengths, all contents); ReadHeader to return three adjacent size-byte fields of one fresh buffer only after a full read; Open to return without error only if the stored header carries the caller's root and data sums and the digest taken after Reset + exactly one copy of the file remainder, with the reader repositioned just behind the header and the Validate error never swallowed; Close to write the header at offset 0 only after the body digest was taken from a freshly reset hash fed by one copy. Universally quantified over file contents (the reader, hash and file are external and unconstrained).",
   note=TB+" hash.Hash, io.Reader, os.File, io.Copy and flate are external: typestate ghosts (what was fed to the hash, last Seek offset) stand for them; collision-freedom of the digest, the flate round trip and durability/ordering of OS writes are assumptions, not obligations.", design='4/C13'),
})
claims.update({
 'C07': dict(
   text="No-panic obligations (every index, slice, type assertion, strings.Repeat count, State.Request size, explicit panic) discharged for all token contents and lengths in the hand-written reader code: the GenBank field-name/line/body/subfield/DBLINK/KEYWORDS/SOURCE/REFERENCE/CONTIG/extra-field closures, the ORIGIN fast validator and line-by-line reader, the location parsers (between, range, ambiguous, join, order, list, delimiter), qualifier value parsers, selector splitting, date/molecule/topology parsing; every hand-written loop in them has a variant (termination). The ORIGIN reader is additionally proved to accept a record only with a layout block of exactly the declared number of residues. Five panics / silent acceptances were found and repaired.",
   note=TB+" go-pars primitives and parsers built by combinators are external: tokens are unconstrained, ParseLocation is assumed to yield a Location, function values may write only through their pointer arguments; totality and linear time of the combinator-built parsers, the table/qualifier dispatch closures that rely on pars.Seq result shapes, Scanner error filtering and the 'declared length without ORIGIN' inconsistency (pinned by the test data) are not decided.", design='4/C07'),
})
claims.update({
 'C14': dict(
   category='other',
   text="Reads-frame obligations over all 19 subcommands that call TryCache: every flag/argument value and every secondary input (guest, host, query, feature table, locator, selector ...) that the command reads after TryCache must flow into the payload hashed into the cache key (def-use walk over the typed AST of each command function; 130+ named obligations, one per (command, value)); plus the typestate half: ioDelegate.Close is proved by contract (SMT) to remove an entry the command did not commit, Commit only sets the flag, and in every command no error return is reachable after Commit. Two defects were found and repaired (extract -v missing from the key; a failed run left a finalised entry).",
   note="Not an SMT proof of bytes-equality of runs: the argument is structural (the output is a function of the primary input and of the values read after TryCache; all of them are in the key; entries are kept only for successful runs). Assumed: the digest of the primary input and the JSON payload encoding are injective enough (hash collisions ignored), secondary input files do not change between the digest and their use, cache.Open validates entries (that half is C13), deferred calls run as the Go spec says (defer is not executed in the model), flags.Context/Raise are external. Histories of 1..4 runs over a shared directory are covered only through this per-run argument (a hit replays bytes written by a committed identical-key run), not explored as sequences.", design='4/C14'),
})
claims.update({
 'C12': dict(
   category='other',
   text="Two parts. Proof: the merge table of LocationList.Push, the only place where Repair merges anything, is under contract for every leaf pair (set and order of residues preserved, two ranges merged exactly when they abut and either force is set or a 3'-partial end meets a 5'-partial start, outer partial markers kept). Bounded (not proved): Repair itself is run on every feature table within a stated bound (all tables of 1-2 features and, quick: 60000 sampled / thorough: all 4 million, tables of 3 features over 53 locations x 3 classes; plus 8100 cut/concat/repair round trips) and checked for: never panics, argument unchanged, per-class coverage preserved, idempotent, unchanged when nothing abuts (exact antecedent for forward ranges, conservative one otherwise), classes kept apart, restoration after 1-2 cuts. Three defect classes found on the unchanged tree are recorded as known findings.",
   note=TB+" Repair's own body (map iteration order, fmt-built keys, unbounded linked list) is outside the verified subset: everything named gts.Repair/bounded:* is an enumeration result within the bound, not a proof. Locations.Less/LocationLess and sort.Sort are exercised, not specified. Tables of 4+ features, coordinates other than {0,3,6,9}, Ambiguous locations and nested composites are outside the bound.", design='4/C12'),
 'C15': dict(
   category='other',
   text="Two parts. Proof: the library steps the multi-site commands are built from are proved for all inputs - Minimize (sorted, pairwise separated, covers exactly the union), InvertLinear/invertSegments (exact complement, increasing), BySegment order, Segment Head/Tail/Len, and the sequence-level Delete, Erase, Insert, Embed, Rotate and Slice contracts (exact residues, feature count, frames). Bounded (not proved): the per-record loops of delete, delete -e, insert, insert -e, infix, split, rotate, extract and extract -v are run through the gts binary built from the current tree on every site configuration within a stated bound (a 24-residue record, linear and circular, sites from 21 forward ranges, 6 complement ranges and 3 points; all single sites plus sampled (quick) or all (thorough) ordered pairs and sampled triples, i.e. unsorted, nested, overlapping, duplicated and abutting sites) and the residues written are compared with what the property prescribes, computed by plain string slicing. One defect was found and repaired (split of a circular record with several sites at one position wrote an empty record).",
   note=TB+" The composition of the steps inside cmd/gts/*.go (order of application, de-duplication, split arithmetic, extract filter) is NOT under contract: the command functions mix flag parsing, I/O and calls through function variables chosen at run time. Everything named main.commands/bounded:* is an enumeration result within the bound, not a proof. Only residues are compared, not the feature tables of the outputs (those rest on the step contracts and on C02-C05/C10); GenBank output format, locators other than a feature selector, modifiers, joined sites and records longer than 24 residues are outside the bound. For split, either end of a complement-strand site is accepted as its cut position (the statement does not fix it and the code uses both).", design='4/C15'),
})
not_app = {
 'C01': "string/grammar round trip through fmt, go-wrap and go-pars closures and global registries: no contract within reach expresses parse(print(x)) = x (DESIGN.md section 7)",
 'C17': "FASTA writer/reader behaviour lives in three external string libraries joined by a closure; nothing in /repo to put a provable contract on (DESIGN.md section 7)",
}
checks = []
for pid in ids:
    if pid in claims and os.path.exists(f'{V}/claims/{pid}.txt'):
        c = claims[pid]
        checks.append({
          "property_id": pid,
          "quick_cmd": f"./check {pid} quick",
          "thorough_cmd": f"./check {pid} thorough",
          "evidence_file": f"/verif/evidence/{pid}.json",
          "replay_cmd_template": "cat {path}   # the replay file carries the failing input, the observed result and a ready-to-run in-package test (test_source/test_command)",
          "engine": "gvc",
          "level_claimed": {"category": c.get('category', 'proof'), "text": c['text'], "design_ref": c['design']},
          "level_note": c['note'],
          "technique": ("def-use reads-frame analysis over the typed AST plus contract-based deductive verification of ioDelegate.Close/Commit (z3/cvc5)" if pid == 'C14' else "contract-based deductive verification of LocationList.Push (z3/cvc5) plus a bounded exhaustive enumeration of the real Repair (labelled bounded, not proof)" if pid == 'C12' else "contract-based deductive verification of the library steps (z3/cvc5) plus a bounded enumeration of site configurations through the built gts binary (labelled bounded, not proof)" if pid == 'C15' else "contract-based deductive verification: weakest-precondition VCs generated from /repo's typed AST against //@ contracts, discharged by z3/cvc5"),
        })
na = []
for pid in ids:
    if any(c['property_id']==pid for c in checks): continue
    na.append({"property_id": pid, "reason": not_app.get(pid, "contracts for this property are not built yet (build in progress; see DESIGN.md section 8); nothing is claimed")})
m = {
 "version": 1,
 "setup_cmd": "cd /verif/gvc && GOFLAGS=-mod=vendor GOPROXY=off GOSUMDB=off GOTOOLCHAIN=local go build -o /verif/bin/gvc .",
 "hooks": {"guard": "verif", "enable": "gvc loads /repo with -tags=verif; the hook files are contracts_verif.go (//go:build verif), comment-only contract files plus ghost lemma functions",
           "baseline_off_cmd": "cd /repo && GOFLAGS=-mod=mod GOPROXY=off GOSUMDB=off go test -vet=off -count=1 ./...",
           "source_commits": hook_commits, "add_only": True},
 "engines": [{"name": "gvc", "path": "/verif/gvc", "serves_properties": [c['property_id'] for c in checks],
              "kind_free_text": "verification-condition generator for a Go subset (go/packages + go/types), contracts in //@ comments, SMT back ends z3 5.1 / cvc5 1.0 / z3 4.8 raced per obligation, counterexample replay through go test -overlay"}],
 "checks": checks,
 "not_applicable": na,
 "notes": "Known findings are in /verif/known_findings.json; claimed obligation names per property in /verif/claims/<id>.txt.",
}
json.dump(m, open(f'{V}/MANIFEST.json','w'), indent=1)
print("checks:", [c['property_id'] for c in checks])
