#!/bin/bash
# Add (or replace) the rows of selected seeds in seeded/RESULTS.md without re-running the others.
# usage: tools/seedtable_add.sh <jobs> <seed-id>...   (same scratch-worktree scheme as seedtable_par.sh)
jobs=$1; shift
cd /verif
work=$(mktemp -d /tmp/stadd.XXXXXX)
one() {
  id=$1; work=$2; d=seeded/$id
  prop=$(python3 -c "import json;print(json.load(open('$d/meta.json'))['property'])")
  files=$(grep '^+++ ' $d/patch.diff | sed 's/+++ b\///' | tr '\n' ' ')
  wt=$work/wt_$id; vd=$work/v_$id
  git -C /repo worktree add --detach -q $wt HEAD 2>/dev/null || { echo "| $id | $prop | $files | WORKTREE FAILED |" > $work/$id.row; return; }
  mkdir -p $vd; cp -r /verif/known_findings.json /verif/claims /verif/bounded $vd/
  if ! git -C $wt apply /verif/$d/patch.diff 2>/dev/null; then
    echo "| $id | $prop | $files | PATCH DOES NOT APPLY |" > $work/$id.row
  else
    res=$(GOFLAGS=-mod=mod GOPROXY=off GOSUMDB=off GOTOOLCHAIN=local /verif/bin/gvc check -prop $prop -repo $wt -verif $vd 2>&1 | grep '^VIOLATION' | sed 's/.*obligation=\(.*\) status=\([a-z]*\).*/\1 (\2)/' | sort -u | head -6 | tr '\n' ';')
    [ -z "$res" ] && res="**MISSED**"
    echo "| $id | $prop | $files | $res |" > $work/$id.row
  fi
  git -C /repo worktree remove --force $wt 2>/dev/null
  rm -rf $vd
}
export -f one
printf '%s\n' "$@" | xargs -P $jobs -I{} bash -c "one {} $work"
python3 - "$work" "$@" <<'PY'
import sys,os
work=sys.argv[1]; ids=sys.argv[2:]
lines=open('/verif/seeded/RESULTS.md').read().rstrip('\n').split('\n')
head,rows=lines[:2],{l.split('|')[1].strip():l for l in lines[2:]}
for i in ids:
    rows[i]=open(f'{work}/{i}.row').read().strip()
order=sorted(d for d in os.listdir('/verif/seeded') if os.path.isdir('/verif/seeded/'+d))
out=head+[rows[i] for i in order if i in rows]
open('/verif/seeded/RESULTS.md','w').write('\n'.join(out)+'\n')
print(len(out)-2,'rows')
PY
git -C /repo worktree prune; rm -rf $work
