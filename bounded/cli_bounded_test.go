package main

// Bounded stand-in for property C15 (multi-site edit commands).  Injected into package main of
// cmd/gts with `go test -overlay` by /verif/gvc (never written into /repo).  It builds the gts
// binary from the current tree and runs the real commands on every site configuration within a
// stated bound, comparing the residues written with what the property statement prescribes,
// computed here by plain string slicing.
//
// Bound: one record of 24 residues (linear and circular), located by the selector
// `misc_feature`; sites drawn from 21 forward ranges over the coordinates {0,4,...,24}, the
// complement of 6 of them, 3 single-base points and 3 two-part joins; all single sites, and pairs and triples of
// sites (ordered, so unsorted, nested, overlapping, duplicated and abutting configurations all
// occur) sampled (quick) or exhaustive for pairs (thorough).  Commands: delete, delete -e,
// insert, insert -e, infix, split, rotate, extract, extract -v, all with --no-cache -F fasta.
// Only residues are compared; feature tables of the outputs are not (see C02-C05, C10).

import (
	"bytes"
	"fmt"
	"math/rand"
	"os"
	"os/exec"
	"path/filepath"
	"sort"
	"strconv"
	"strings"
	"sync"
	"testing"
)

const vcSeq = "acgtaaccggttagctgatcgcat"
const vcGuest = "nnn"

// a site: one interval [lo,hi) (optionally on the complement strand), or a forward join of
// intervals given in parts (then lo/hi are the outer ends)
type vcSite struct {
	lo, hi int
	comp   bool
	parts  string // "a-b,c-d" (0-based half-open) for a join, empty otherwise
}

func (s vcSite) intervals() [][2]int {
	if s.parts == "" {
		return [][2]int{{s.lo, s.hi}}
	}
	var out [][2]int
	for _, p := range strings.Split(s.parts, ",") {
		var a, b int
		fmt.Sscanf(p, "%d-%d", &a, &b)
		out = append(out, [2]int{a, b})
	}
	return out
}

func (s vcSite) String() string {
	if s.parts != "" {
		var ps []string
		for _, iv := range s.intervals() {
			ps = append(ps, fmt.Sprintf("%d..%d", iv[0]+1, iv[1]))
		}
		return "join(" + strings.Join(ps, ",") + ")"
	}
	loc := fmt.Sprintf("%d..%d", s.lo+1, s.hi)
	if s.hi == s.lo+1 {
		loc = fmt.Sprintf("%d", s.lo+1)
	}
	if s.comp {
		loc = "complement(" + loc + ")"
	}
	return loc
}

func (s vcSite) head() int {
	if s.comp {
		return s.hi
	}
	return s.lo
}

func vcRecord(sites []vcSite, circular bool) string {
	top := "linear  "
	if circular {
		top = "circular"
	}
	var b strings.Builder
	fmt.Fprintf(&b, "LOCUS       DEMO                      %d bp    DNA     %s SYN 01-JAN-2020\n", len(vcSeq), top)
	b.WriteString("DEFINITION  demo record.\nACCESSION   DEMO\nVERSION     DEMO.1\nKEYWORDS    .\nSOURCE      synthetic construct\n  ORGANISM  synthetic construct\n            other sequences; artificial sequences.\n")
	b.WriteString("FEATURES             Location/Qualifiers\n")
	fmt.Fprintf(&b, "     source          1..%d\n                     /organism=\"synthetic construct\"\n", len(vcSeq))
	for i, s := range sites {
		fmt.Fprintf(&b, "     misc_feature    %s\n                     /note=\"site%d\"\n", s, i)
	}
	b.WriteString("ORIGIN\n")
	for i := 0; i < len(vcSeq); i += 60 {
		fmt.Fprintf(&b, "%9d", i+1)
		for j := i; j < i+60 && j < len(vcSeq); j += 10 {
			e := j + 10
			if e > len(vcSeq) {
				e = len(vcSeq)
			}
			b.WriteString(" " + vcSeq[j:e])
		}
		b.WriteString("\n")
	}
	b.WriteString("//\n")
	return b.String()
}

func vcRevComp(s string) string {
	m := map[byte]byte{'a': 't', 'c': 'g', 'g': 'c', 't': 'a', 'n': 'n'}
	out := make([]byte, len(s))
	for i := range s {
		out[len(s)-1-i] = m[s[i]]
	}
	return string(out)
}

func vcFasta(s string) []string {
	var seqs []string
	for _, line := range strings.Split(s, "\n") {
		switch {
		case strings.HasPrefix(line, ">"):
			seqs = append(seqs, "")
		case len(seqs) > 0:
			seqs[len(seqs)-1] += strings.TrimSpace(line)
		}
	}
	return seqs
}

type vcRun struct {
	out  []string
	code int
	err  string
}

func vcExec(bin, home, stdin string, args ...string) vcRun {
	cmd := exec.Command(bin, args...)
	cmd.Stdin = strings.NewReader(stdin)
	cmd.Env = append(os.Environ(), "HOME="+home, "XDG_CACHE_HOME="+home)
	var stdout, stderr bytes.Buffer
	cmd.Stdout = &stdout
	cmd.Stderr = &stderr
	err := cmd.Run()
	r := vcRun{out: vcFasta(stdout.String())}
	if err != nil {
		r.code = 1
		r.err = strings.TrimSpace(stderr.String())
		if len(r.err) > 300 {
			r.err = r.err[:300]
		}
	}
	return r
}

type vcFailure struct {
	n       int
	example string
}

var (
	vcMu    sync.Mutex
	vcFails = map[string]*vcFailure{}
	vcRuns  int
)

func vcRecord1(clause, label string, sites []vcSite, circular bool, got vcRun, want interface{}) {
	vcMu.Lock()
	defer vcMu.Unlock()
	k := clause + "\t" + label
	f := vcFails[k]
	if f == nil {
		f = &vcFailure{example: fmt.Sprintf("sites=%v circular=%v got=%q exit=%d %s want=%q", sites, circular, got.out, got.code, got.err, want)}
		vcFails[k] = f
	}
	f.n++
}

func vcEq(a, b []string) bool {
	if len(a) != len(b) {
		return false
	}
	for i := range a {
		if a[i] != b[i] {
			return false
		}
	}
	return true
}

func vcCheck(bin, home, hostFile string, sites []vcSite, circular bool) {
	rec := vcRecord(sites, circular)
	L := len(vcSeq)
	covered := make([]bool, L)
	for _, s := range sites {
		for _, iv := range s.intervals() {
			for x := iv[0]; x < iv[1]; x++ {
				covered[x] = true
			}
		}
	}
	count := func() {
		vcMu.Lock()
		vcRuns++
		vcMu.Unlock()
	}
	// delete / delete -e: exactly the union of the located regions is removed
	var kept strings.Builder
	for x := 0; x < L; x++ {
		if !covered[x] {
			kept.WriteByte(vcSeq[x])
		}
	}
	for _, flag := range []string{"", "-e"} {
		args := []string{"delete", "--no-cache", "-F", "fasta"}
		if flag != "" {
			args = append(args, flag)
		}
		args = append(args, "misc_feature")
		got := vcExec(bin, home, rec, args...)
		count()
		want := []string{kept.String()}
		if got.code != 0 || !vcEq(got.out, want) {
			vcRecord1("delete-removes-union"+flag, "other", sites, circular, got, want)
		}
	}
	// insert / insert -e / infix: one guest copy per region at its 5' position, input coordinates
	heads := map[int]int{}
	for _, s := range sites {
		heads[s.head()]++
	}
	var ins strings.Builder
	for x := 0; x <= L; x++ {
		for k := 0; k < heads[x]; k++ {
			ins.WriteString(vcGuest)
		}
		if x < L {
			ins.WriteByte(vcSeq[x])
		}
	}
	for _, flag := range []string{"", "-e"} {
		args := []string{"insert", "--no-cache", "-F", "fasta"}
		if flag != "" {
			args = append(args, flag)
		}
		args = append(args, "misc_feature", "@"+vcGuest)
		got := vcExec(bin, home, rec, args...)
		count()
		want := []string{ins.String()}
		if got.code != 0 || !vcEq(got.out, want) {
			vcRecord1("insert-once-per-site"+flag, "other", sites, circular, got, want)
		}
	}
	{
		os.WriteFile(hostFile, []byte(rec), 0o644)
		got := vcExec(bin, home, ">guest\n"+vcGuest+"\n", "infix", "--no-cache", "-F", "fasta", "misc_feature", hostFile)
		count()
		want := []string{ins.String()}
		if got.code != 0 || !vcEq(got.out, want) {
			vcRecord1("infix-once-per-site", "other", sites, circular, got, want)
		}
	}
	// rotate: the first located position comes to index 0
	{
		h := sites[0].head() % L
		got := vcExec(bin, home, rec, "rotate", "--no-cache", "-F", "fasta", "misc_feature")
		count()
		want := []string{vcSeq[h:] + vcSeq[:h]}
		if got.code != 0 || !vcEq(got.out, want) {
			vcRecord1("rotate-first-site-to-zero", "other", sites, circular, got, want)
		}
	}
	// split: cut at every distinct located position; the pieces concatenate back to the input
	// (circular: to the input re-origined at a cut).  The statement does not say which end of a
	// complement-strand region is "its position" and the code uses the lower coordinate in
	// the multi-site path and the 5' end in the single-site circular path, so either end of a
	// complement site is accepted: every boundary must be an accepted position of some site and
	// every site must contribute one.
	{
		allowed := map[int]bool{}
		for _, s := range sites {
			allowed[s.lo%L] = true
			allowed[s.head()%L] = true
		}
		got := vcExec(bin, home, rec, "split", "--no-cache", "-F", "fasta", "misc_feature")
		count()
		cat := strings.Join(got.out, "")
		ok := got.code == 0 && len(got.out) > 0
		if ok {
			origin := -1
			if !circular {
				if cat == vcSeq {
					origin = 0
				}
			} else {
				for c := 0; c < L; c++ {
					if allowed[c] && cat == vcSeq[c:]+vcSeq[:c] {
						origin = c
					}
				}
			}
			ok = origin >= 0
			if ok {
				b := map[int]bool{}
				if circular {
					b[origin] = true
				}
				p := origin
				for _, piece := range got.out[:len(got.out)-1] {
					p += len(piece)
					b[p%L] = true
				}
				for x := range b {
					if !allowed[x] && !(x == 0 && !circular) {
						ok = false
					}
				}
				for _, s := range sites {
					lo, hd := s.lo%L, s.head()%L
					if !b[lo] && !b[hd] && !(!circular && (lo == 0 || hd == 0)) {
						ok = false
					}
				}
			}
		}
		if !ok {
			vcRecord1("split-pieces-tile-input", "other", sites, circular, got, fmt.Sprintf("pieces of %s cut at the sites", vcSeq))
		}
	}
	// extract: every located region shorter than the record, in order, without duplicates
	{
		var want []string
		seen := map[vcSite]bool{}
		var uniq []vcSite
		for _, s := range sites {
			if !seen[s] {
				seen[s] = true
				uniq = append(uniq, s)
			}
		}
		for _, s := range uniq {
			sub, n := "", 0
			for _, iv := range s.intervals() {
				sub += vcSeq[iv[0]:iv[1]]
				n += iv[1] - iv[0]
			}
			if len(uniq) == 1 || n != L {
				if s.comp {
					sub = vcRevComp(sub)
				}
				want = append(want, sub)
			}
		}
		got := vcExec(bin, home, rec, "extract", "--no-cache", "-F", "fasta", "misc_feature")
		count()
		if got.code != 0 || !vcEq(got.out, want) {
			vcRecord1("extract-each-site-once-in-order", "other", sites, circular, got, want)
		}
	}
	// extract -v: exactly the maximal unlocated stretches
	{
		var want []string
		for x := 0; x < L; {
			if covered[x] {
				x++
				continue
			}
			y := x
			for y < L && !covered[y] {
				y++
			}
			want = append(want, vcSeq[x:y])
			x = y
		}
		got := vcExec(bin, home, rec, "extract", "--no-cache", "-v", "-F", "fasta", "misc_feature")
		count()
		if got.code != 0 || !vcEq(got.out, want) {
			vcRecord1("extract-v-unlocated-stretches", "other", sites, circular, got, want)
		}
	}
}

func TestVerifBoundedCLI(t *testing.T) {
	dir, err := os.MkdirTemp("", "gvc-cli-")
	if err != nil {
		t.Fatal(err)
	}
	defer os.RemoveAll(dir)
	bin := filepath.Join(dir, "gts")
	cmd := exec.Command("go", "build", "-o", bin, ".")
	cmd.Env = append(os.Environ(), "GOFLAGS=-mod=mod", "GOPROXY=off", "GOSUMDB=off", "GOTOOLCHAIN=local")
	if out, err := cmd.CombinedOutput(); err != nil {
		t.Fatalf("go build failed: %v\n%s", err, out)
	}
	var univ []vcSite
	cs := []int{0, 4, 8, 12, 16, 20, 24}
	for i := 0; i < len(cs); i++ {
		for j := i + 1; j < len(cs); j++ {
			univ = append(univ, vcSite{lo: cs[i], hi: cs[j]})
		}
	}
	for _, r := range [][2]int{{0, 4}, {4, 12}, {8, 16}, {12, 24}, {20, 24}, {0, 24}} {
		univ = append(univ, vcSite{lo: r[0], hi: r[1], comp: true})
	}
	for _, p := range []int{0, 11, 23} {
		univ = append(univ, vcSite{lo: p, hi: p + 1})
	}
	// joins; the first two share both outer ends and the total length
	univ = append(univ, vcSite{lo: 0, hi: 24, parts: "0-4,12-24"}, vcSite{lo: 0, hi: 24, parts: "0-8,16-24"}, vcSite{lo: 4, hi: 16, parts: "4-8,12-16"})
	var sets [][]vcSite
	for _, a := range univ {
		sets = append(sets, []vcSite{a})
	}
	seed, _ := strconv.ParseInt(os.Getenv("VERIF_SEED"), 10, 64)
	rng := rand.New(rand.NewSource(seed + 7))
	if os.Getenv("VERIF_TIER") == "thorough" {
		for _, a := range univ {
			for _, b := range univ {
				sets = append(sets, []vcSite{a, b})
			}
		}
		for k := 0; k < 1500; k++ {
			sets = append(sets, []vcSite{univ[rng.Intn(len(univ))], univ[rng.Intn(len(univ))], univ[rng.Intn(len(univ))]})
		}
	} else {
		for k := 0; k < 120; k++ {
			sets = append(sets, []vcSite{univ[rng.Intn(len(univ))], univ[rng.Intn(len(univ))]})
		}
		nj := len(univ) - 3 // the join sites, paired with each other in both orders
		for a := nj; a < len(univ); a++ {
			for b := nj; b < len(univ); b++ {
				sets = append(sets, []vcSite{univ[a], univ[b]})
			}
		}
		for k := 0; k < 80; k++ {
			sets = append(sets, []vcSite{univ[rng.Intn(len(univ))], univ[rng.Intn(len(univ))], univ[rng.Intn(len(univ))]})
		}
	}
	type job struct {
		sites    []vcSite
		circular bool
	}
	jobs := make(chan job)
	var wg sync.WaitGroup
	for w := 0; w < 16; w++ {
		wg.Add(1)
		home := filepath.Join(dir, fmt.Sprintf("home%d", w))
		os.MkdirAll(home, 0o755)
		host := filepath.Join(dir, fmt.Sprintf("host%d.gb", w))
		go func() {
			defer wg.Done()
			for j := range jobs {
				vcCheck(bin, home, host, j.sites, j.circular)
			}
		}()
	}
	for _, s := range sets {
		jobs <- job{s, false}
		jobs <- job{s, true}
	}
	close(jobs)
	wg.Wait()
	fmt.Printf("VB-STATS sitesets=%d topologies=2 invocations=%d universe=%d\n", len(sets), vcRuns, len(univ))
	var keys []string
	for k := range vcFails {
		keys = append(keys, k)
	}
	sort.Strings(keys)
	for _, k := range keys {
		fmt.Printf("VB-FAIL\t%s\t%d\t%s\n", k, vcFails[k].n, vcFails[k].example)
	}
}
