package seqio

// Bounded stand-in for the text half of property C17.  Injected into package seqio with
// `go test -overlay` by /verif/gvc (never written into /repo).  The wrapping (go-wrap), the
// formatting (fmt) and the FASTA grammar (go-pars combinators) are outside the verified subset;
// what /repo itself contributes (which description and which bytes are handed to them) is under
// contract.  Here the real writer and the real scanner are run on every input within the bound.
//
// Bound: residue counts 0..290 (every remainder modulo the 70-column line width, 0 to 4 full
// lines, incl. the exact multiples 70, 140, 210, 280), residues cycling through the printable
// bytes 0x21..0x7e without '>' from three starting offsets, 6 descriptions (empty, one word,
// words with blanks, a tab, a trailing blank, a '>' inside), streams of 1..5 records of mixed
// lengths, two-record streams whose first record has 3950..4250 residues (the scanner's
// 4096-byte read boundary falls at every offset around the record break), the text read as
// written (LF) and with every LF turned into CRLF.  GenBank half: a
// 130-residue record parsed from text, written as FASTA whole and after gts.Slice for every
// window [a,b) with a in {0,1,59,60,61} and every b > a (quick: b step 1; the description must be
// "<version>:<a+1>-<b> <definition>", "<version> <definition>" for the unsliced record).

import (
	"bytes"
	"fmt"
	"os"
	"sort"
	"strings"
	"testing"

	"github.com/go-gts/gts"
)

const vfGenBank = `LOCUS       VERIF17                  130 bp    DNA     linear   SYN 01-JAN-2020
DEFINITION  bounded harness record.
ACCESSION   VERIF17
VERSION     VERIF17.1
KEYWORDS    .
SOURCE      synthetic construct
  ORGANISM  synthetic construct
            other sequences; artificial sequences.
FEATURES             Location/Qualifiers
     source          1..130
                     /organism="synthetic construct"
     misc_feature    5..40
                     /note="x"
ORIGIN
        1 aaaacccccc gggggggggg tttttttttt acacacacac gtgtgtgtgt catgcatgca
       61 ttttgggggg cccccccccc aaaaaaaaaa tgtgtgtgtg cacacacaca gtacgtacgt
      121 acgtacgtac
//
`

type vfFail struct {
	n       int
	example string
}

func vfResidues(n, off int) []byte {
	var alpha []byte
	for b := byte(0x21); b <= 0x7e; b++ {
		if b != '>' {
			alpha = append(alpha, b)
		}
	}
	p := make([]byte, n)
	for i := range p {
		p[i] = alpha[(i+off)%len(alpha)]
	}
	return p
}

type vfRec struct {
	desc string
	data []byte
}

func vfWrite(recs []vfRec) (s string, err error) {
	defer func() {
		if r := recover(); r != nil {
			err = fmt.Errorf("panic: %v", r)
		}
	}()
	buf := &bytes.Buffer{}
	w := NewWriter(buf, FastaFile)
	for _, r := range recs {
		if _, err := w.WriteSeq(gts.New(r.desc, nil, r.data)); err != nil {
			return "", err
		}
	}
	return buf.String(), nil
}

func vfRead(s string) (recs []vfRec, err error) {
	defer func() {
		if r := recover(); r != nil {
			err = fmt.Errorf("panic: %v", r)
		}
	}()
	sc := NewAutoScanner(strings.NewReader(s))
	for sc.Scan() {
		v := sc.Value()
		d, _ := v.Info().(string)
		recs = append(recs, vfRec{d, append([]byte(nil), v.Bytes()...)})
		if len(recs) > 16 {
			return recs, fmt.Errorf("more than 16 records")
		}
	}
	return recs, sc.Err()
}

func vfSame(a, b []vfRec) bool {
	if len(a) != len(b) {
		return false
	}
	for i := range a {
		if a[i].desc != b[i].desc || !bytes.Equal(a[i].data, b[i].data) {
			return false
		}
	}
	return true
}

func TestVerifBoundedFasta(t *testing.T) {
	fails := map[string]*vfFail{}
	rec := func(clause string, example string) {
		f := fails[clause]
		if f == nil {
			f = &vfFail{example: example}
			fails[clause] = f
		}
		f.n++
	}
	short := func(s string) string {
		if len(s) > 400 {
			return s[:200] + "..." + s[len(s)-150:]
		}
		return s
	}
	maxN := 290
	if os.Getenv("VERIF_TIER") == "thorough" {
		maxN = 1500
	}
	descs := []string{"", "x", "id some words", "id\twith tab", "trailing blank ", "a>b c"}
	streams := 0
	check := func(recs []vfRec) {
		streams++
		s, err := vfWrite(recs)
		if err != nil {
			rec("fasta-writes", fmt.Sprintf("records=%d first len=%d: %v", len(recs), len(recs[0].data), err))
			return
		}
		// layout: one description line, residue lines of exactly 70 columns except the last
		lines := strings.Split(s, "\n")
		k := 0
		for _, r := range recs {
			if k >= len(lines) || lines[k] != ">"+r.desc {
				rec("layout-70-columns", fmt.Sprintf("len=%d desc=%q text=%q", len(r.data), r.desc, short(s)))
				break
			}
			k++
			rest := len(r.data)
			bad := false
			if rest == 0 {
				// an empty record is written as one empty residue line
				if k < len(lines) && lines[k] == "" {
					k++
				}
			}
			for rest > 0 {
				want := 70
				if rest < 70 {
					want = rest
				}
				if k >= len(lines) || len(lines[k]) != want {
					bad = true
					break
				}
				rest -= want
				k++
			}
			if bad {
				rec("layout-70-columns", fmt.Sprintf("len=%d desc=%q text=%q", len(r.data), r.desc, short(s)))
				break
			}
		}
		got, err := vfRead(s)
		if err != nil || !vfSame(recs, got) {
			rec("roundtrip-lf", fmt.Sprintf("records=%d lens=%v err=%v text=%q read=%d records", len(recs), vfLens(recs), err, short(s), len(got)))
		}
		got, err = vfRead(strings.ReplaceAll(s, "\n", "\r\n"))
		if err != nil || !vfSame(recs, got) {
			ex := ""
			if len(got) > 0 {
				ex = fmt.Sprintf(" first read: desc=%q data=%q", got[0].desc, short(string(got[0].data)))
			}
			rec("roundtrip-crlf", fmt.Sprintf("records=%d lens=%v err=%v read=%d records%s", len(recs), vfLens(recs), err, len(got), ex))
		}
	}
	for n := 0; n <= maxN; n++ {
		for _, off := range []int{0, 31, 62} {
			check([]vfRec{{descs[(n+off)%len(descs)], vfResidues(n, off)}})
		}
	}
	// the scanner reads its input in 4096-byte blocks: lengths that move the end of the first
	// record, and the start of the second, across a block boundary
	for n := 3950; n <= 4250; n++ {
		check([]vfRec{{"first", vfResidues(n, 7)}, {"second record", vfResidues(75, 3)}})
	}
	for _, d := range descs {
		for _, n := range []int{0, 1, 69, 70, 71, 140} {
			check([]vfRec{{d, vfResidues(n, 5)}})
		}
	}
	// streams of 2..5 records of mixed lengths (every remainder appears in every position)
	for count := 2; count <= 5; count++ {
		for n := 0; n <= 150; n++ {
			var recs []vfRec
			for k := 0; k < count; k++ {
				recs = append(recs, vfRec{descs[(n+k)%len(descs)], vfResidues((n+k*37)%151, k)})
			}
			check(recs)
		}
		// all records empty, all records exactly one / two full lines
		for _, n := range []int{0, 70, 140} {
			var recs []vfRec
			for k := 0; k < count; k++ {
				recs = append(recs, vfRec{descs[k%len(descs)], vfResidues(n, k)})
			}
			check(recs)
		}
	}

	// GenBank -> FASTA
	gbN := 0
	sc := NewAutoScanner(strings.NewReader(vfGenBank))
	if !sc.Scan() {
		rec("genbank-to-fasta", fmt.Sprintf("harness record does not parse: %v", sc.Err()))
	} else {
		gb := sc.Value()
		all := append([]byte(nil), gb.Bytes()...)
		fields, _ := gb.Info().(GenBankFields)
		version, definition := fields.Version, fields.Definition
		if version != "VERIF17.1" || !strings.HasPrefix(definition, "bounded harness record") {
			rec("genbank-to-fasta", fmt.Sprintf("harness record read as version=%q definition=%q", version, definition))
		}
		toFasta := func(seq gts.Sequence) (r []vfRec, err error) {
			defer func() {
				if p := recover(); p != nil {
					err = fmt.Errorf("panic: %v", p)
				}
			}()
			buf := &bytes.Buffer{}
			if _, err := NewWriter(buf, FastaFile).WriteSeq(seq); err != nil {
				return nil, err
			}
			return vfRead(buf.String())
		}
		gbN++
		got, err := toFasta(gb)
		if err != nil || len(got) != 1 || got[0].desc != version+" "+definition || !bytes.Equal(got[0].data, all) {
			rec("genbank-to-fasta", fmt.Sprintf("whole record: err=%v read=%s", err, vfShow(got)))
		}
		for _, a := range []int{0, 1, 59, 60, 61} {
			for b := a + 1; b <= len(all); b++ {
				gbN++
				var out gts.Sequence
				func() {
					defer func() {
						if p := recover(); p != nil {
							err = fmt.Errorf("panic in Slice: %v", p)
						}
					}()
					err = nil
					out = gts.Slice(gb, a, b)
				}()
				if err != nil {
					rec("genbank-to-fasta", fmt.Sprintf("Slice(%d,%d): %v", a, b, err))
					continue
				}
				got, err := toFasta(out)
				want := fmt.Sprintf("%s:%d-%d %s", version, a+1, b, definition)
				if err != nil || len(got) != 1 || got[0].desc != want || !bytes.Equal(got[0].data, all[a:b]) {
					rec("genbank-to-fasta", fmt.Sprintf("Slice(%d,%d): err=%v want desc %q, read=%s", a, b, err, want, vfShow(got)))
				}
			}
		}
	}

	fmt.Printf("VB-STATS streams=%d max-residues=%d genbank-windows=%d\n", streams, maxN, gbN)
	var keys []string
	for k := range fails {
		keys = append(keys, k)
	}
	sort.Strings(keys)
	for _, k := range keys {
		fmt.Printf("VB-FAIL\t%s\tother\t%d\t%s\n", k, fails[k].n, fails[k].example)
	}
}

func vfLens(recs []vfRec) []int {
	var l []int
	for _, r := range recs {
		l = append(l, len(r.data))
	}
	return l
}

func vfShow(recs []vfRec) string {
	var b strings.Builder
	for _, r := range recs {
		d := string(r.data)
		if len(d) > 160 {
			d = d[:80] + "..." + d[len(d)-60:]
		}
		fmt.Fprintf(&b, "{desc=%q data=%q}", r.desc, d)
	}
	return b.String()
}
