package seqio

// Bounded stand-in for property C01 (GenBank write -> read -> write).  Injected into package
// seqio with `go test -overlay` by /verif/gvc (never written into /repo).  GenBank.String, the
// feature-table formatter and the field parsers are built from fmt, strings, go-wrap and go-pars
// combinators (outside the verified subset); here the real writer and the real auto-detecting
// scanner are run on every record within the bound.
//
// Bound (records built through the API, one dimension varied at a time around a base record, plus
// seeded random combinations of all dimensions: 300 quick / 6000 thorough, plus structure-aware
// random records: 600 quick / 20000 thorough - every text field drawn from words with the
// punctuation of real records and lengths straddling the wrap columns, locus names of 1..26
// characters, reference numbers incl. 99..999, feature keys of 1..16 characters, joins of up to
// 13 parts (wrapped location lines), qualifier values with line breaks; SOURCE and ORGANISM
// values kept to one line):
//   residues     0, 1, 9, 10, 11, 59, 60, 61, 119, 120, 121, 130 (ORIGIN line/group boundaries)
//   locus        names of 1, 6 and 16 characters; DNA, RNA, ss-DNA, ds-DNA; linear, circular;
//                divisions SYN, PHG, UNA; dates 01-JAN-1980, 29-FEB-2000, 31-DEC-1999, 06-JUL-2018,
//                the first and last day of every month of 2019, 29-FEB-2004, 28-FEB-1900
//   header       definition short / 100 characters / with an inner period / ending in one or two
//                periods / empty; accession with and without version; DBLINK 0..2 pairs, a pair
//                with an empty value; keywords none / one / five; source, organism,
//                taxonomy short and wrapped; 0..3 references with any subset of AUTHORS, CONSRTM,
//                TITLE, JOURNAL, PUBMED, REMARK and range info; 0..2 comments (one multi-line)
//   extra        uncommon fields: names PRIMARY, DBSOURCE and 3, 10, 11, 12 upper-case letters
//                (12 fills the name column) x three values (one line, two lines, starting with a
//                digit), alone and after a second uncommon field
//   features     0..4 features; keys source, gene, CDS, misc_feature; locations: range, partial
//                ranges, point, between-site, complement, join, order, complement(join);
//                qualifiers: quoted, literal (/codon_start=1), toggle (/pseudo), a 150-character
//                quoted value (wraps), values of exactly 57..59 characters, values with line
//                breaks (a short inner line, an empty inner line), leading/trailing blanks, a
//                backslash, a value with a double quote, two qualifiers of one name
//   buffering    one record with its COMMENT padded by 3000..7095 characters, so that every line
//                of the record crosses a 4096-byte read boundary of the scanner once
//   streams      1..4 records written one after the other into one stream
//   pipelines    the four records of seqio/testdata, the base record and a record with both a
//                CONTIG field and residues, after each of
//                Slice (inner, prefix of 1/60/61, origin-spanning, empty), Delete, Erase, Insert,
//                Embed, Rotate, Reverse, Concat, WithFeatures(nil), and after pairs of them
// Clauses: record-writes, written-record-parses, residues-kept, features-kept, header-kept,
// write-read-write-fixed-point, stream-framed-independently, unknown-qualifier-names,
// corpus-declared-length (the four
// files of seqio/testdata are read with as many residues as their LOCUS line declares).
// Defect class told apart by the input: empty-region (the record is an empty slice).

import (
	"bytes"
	"fmt"
	"math/rand"
	"os"
	"reflect"
	"sort"
	"strconv"
	"strings"
	"testing"
	"time"

	"github.com/go-gts/gts"
)

type vgFail struct {
	n       int
	example string
}

var vgFails = map[string]*vgFail{}

func vgRec(clause, label, example string) {
	k := clause + "\t" + label
	f := vgFails[k]
	if f == nil {
		if len(example) > 900 {
			example = example[:900] + "..."
		}
		f = &vgFail{example: strings.ReplaceAll(example, "\n", "\\n")}
		vgFails[k] = f
	}
	f.n++
}

func vgWrite(seqs ...gts.Sequence) (s string, err error) {
	defer func() {
		if r := recover(); r != nil {
			err = fmt.Errorf("panic while writing: %v", r)
		}
	}()
	buf := &bytes.Buffer{}
	w := NewWriter(buf, GenBankFile)
	for _, q := range seqs {
		if _, err := w.WriteSeq(q); err != nil {
			return "", err
		}
	}
	return buf.String(), nil
}

func vgRead(s string) (out []gts.Sequence, err error) {
	defer func() {
		if r := recover(); r != nil {
			err = fmt.Errorf("panic while reading: %v", r)
		}
	}()
	sc := NewAutoScanner(strings.NewReader(s))
	for sc.Scan() {
		out = append(out, sc.Value())
		if len(out) > 16 {
			return out, fmt.Errorf("more than 16 records")
		}
	}
	return out, sc.Err()
}

func vgDiff(a, b string) string {
	la, lb := strings.Split(a, "\n"), strings.Split(b, "\n")
	for i := 0; i < len(la) && i < len(lb); i++ {
		if la[i] != lb[i] {
			return fmt.Sprintf("line %d: first %q second %q", i+1, la[i], lb[i])
		}
	}
	return fmt.Sprintf("line counts %d and %d", len(la), len(lb))
}

func vgFields(seq gts.Sequence) (GenBankFields, bool) {
	f, ok := seq.Info().(GenBankFields)
	return f, ok
}

// vgHeaderDiff compares the header fields one by one (ExtraField carries a function value, so
// reflect.DeepEqual on the whole struct is not usable).
func vgHeaderDiff(a, b GenBankFields) string {
	var d []string
	chk := func(name string, x, y interface{}) {
		if !reflect.DeepEqual(x, y) {
			d = append(d, fmt.Sprintf("%s: wrote %#v read %#v", name, x, y))
		}
	}
	chk("LocusName", a.LocusName, b.LocusName)
	chk("Molecule", a.Molecule, b.Molecule)
	chk("Topology", a.Topology, b.Topology)
	chk("Division", a.Division, b.Division)
	chk("Date", a.Date, b.Date)
	chk("Definition", a.Definition, b.Definition)
	chk("Accession", a.Accession, b.Accession)
	chk("Version", a.Version, b.Version)
	if len(a.DBLink) != 0 || len(b.DBLink) != 0 {
		chk("DBLink", a.DBLink, b.DBLink)
	}
	if len(a.Keywords) != 0 || len(b.Keywords) != 0 {
		chk("Keywords", a.Keywords, b.Keywords)
	}
	chk("Source.Species", a.Source.Species, b.Source.Species)
	chk("Source.Name", a.Source.Name, b.Source.Name)
	if len(a.Source.Taxon) != 0 || len(b.Source.Taxon) != 0 {
		chk("Source.Taxon", a.Source.Taxon, b.Source.Taxon)
	}
	if len(a.References) != len(b.References) {
		chk("References(count)", len(a.References), len(b.References))
	} else {
		for i := range a.References {
			x, y := a.References[i], b.References[i]
			if len(x.Xref) == 0 && len(y.Xref) == 0 {
				x.Xref, y.Xref = nil, nil
			}
			chk(fmt.Sprintf("References[%d]", i), x, y)
		}
	}
	if len(a.Comments) != 0 || len(b.Comments) != 0 {
		chk("Comments", a.Comments, b.Comments)
	}
	if len(a.Extra) != len(b.Extra) {
		chk("Extra(count)", len(a.Extra), len(b.Extra))
	} else {
		for i := range a.Extra {
			chk(fmt.Sprintf("Extra[%d]", i), [2]string{a.Extra[i].Name, a.Extra[i].Value}, [2]string{b.Extra[i].Name, b.Extra[i].Value})
		}
	}
	chk("Contig", a.Contig, b.Contig)
	chk("Region", a.Region, b.Region)
	return strings.Join(d, "; ")
}

func vgFeatDiff(a, b gts.FeatureSlice) string {
	if len(a) != len(b) {
		return fmt.Sprintf("wrote %d features, read %d", len(a), len(b))
	}
	for i := range a {
		if a[i].Key != b[i].Key {
			return fmt.Sprintf("feature %d: key wrote %q read %q", i, a[i].Key, b[i].Key)
		}
		if a[i].Loc.String() != b[i].Loc.String() {
			return fmt.Sprintf("feature %d: location wrote %s read %s", i, a[i].Loc, b[i].Loc)
		}
		if (len(a[i].Props) != 0 || len(b[i].Props) != 0) && !reflect.DeepEqual([][]string(a[i].Props), [][]string(b[i].Props)) {
			return fmt.Sprintf("feature %d (%s): qualifiers wrote %v read %v", i, a[i].Key, a[i].Props, b[i].Props)
		}
	}
	return ""
}

// vgCheck runs the clauses on one record; name identifies the input in the report.
func vgCheck(name string, seq gts.Sequence) {
	s1, err := vgWrite(seq)
	if err != nil {
		vgRec("record-writes", vgLabel(name, seq, err.Error()), name+": "+err.Error())
		return
	}
	got, err := vgRead(s1)
	if err != nil || len(got) != 1 {
		msg := fmt.Sprintf("%s: read %d records, err=%v; text: %s", name, len(got), err, s1)
		vgRec("written-record-parses", vgLabel(name, seq, fmt.Sprint(err)), msg)
		return
	}
	back := got[0]
	if !bytes.Equal(back.Bytes(), seq.Bytes()) {
		vgRec("residues-kept", vgLabel(name, seq, ""), fmt.Sprintf("%s: wrote %d residues, read %d", name, len(seq.Bytes()), len(back.Bytes())))
	}
	if d := vgFeatDiff(seq.Features(), back.Features()); d != "" {
		vgRec("features-kept", vgLabel(name, seq, d), name+": "+d)
	}
	fa, oka := vgFields(seq)
	fb, okb := vgFields(back)
	if oka && okb {
		if d := vgHeaderDiff(fa, fb); d != "" {
			vgRec("header-kept", vgLabel(name, seq, d), name+": "+d)
		}
	}
	s2, err := vgWrite(back)
	if err != nil {
		vgRec("write-read-write-fixed-point", vgLabel(name, seq, err.Error()), name+": rewrite: "+err.Error())
	} else if s1 != s2 {
		d := vgDiff(s1, s2)
		vgRec("write-read-write-fixed-point", vgLabel(name, seq, d), name+": "+d)
	}
}

// vgLabel sorts a failure into a defect class (the classes that are recorded as known findings
// get a name; everything else is "other").
func vgLabel(name string, seq gts.Sequence, detail string) string {
	if os.Getenv("VERIF_PROBE") != "" {
		// development aid: one class per set of differing header fields / first words of the detail
		var names []string
		for _, part := range strings.Split(detail, "; ") {
			if i := strings.Index(part, ": wrote "); i > 0 {
				names = append(names, strings.SplitN(part[:i], "[", 2)[0])
			}
		}
		if len(names) > 0 {
			sort.Strings(names)
			return strings.Join(names, "+")
		}
		w := strings.Fields(detail)
		if len(w) > 6 {
			w = w[:6]
		}
		return strings.Join(w, "_")
	}
	// the recorded defect class, delimited by the input
	if f, ok := vgFields(seq); ok {
		if seg, ok := f.Region.(gts.Segment); ok && seg[0] == seg[1] {
			return "empty-region"
		}
	}
	return "other"
}

func vgDate(y int, m time.Month, d int) Date { return Date{y, m, d} }

func vgBaseFields() GenBankFields {
	return GenBankFields{
		LocusName: "VERIF1", Molecule: gts.DNA, Topology: gts.Linear, Division: "SYN", Date: vgDate(2018, time.July, 6),
		Definition: "bounded harness record", Accession: "VERIF1", Version: "VERIF1.1",
		Keywords: nil,
		Source:   Organism{Species: "synthetic construct", Name: "synthetic construct", Taxon: []string{"other sequences", "artificial sequences"}},
	}
}

func vgResidues(n int) []byte {
	p := make([]byte, n)
	for i := range p {
		p[i] = "acgt"[(i*7+i/3)%4]
	}
	return p
}

func vgProps(kv ...string) gts.Props {
	p := gts.Props{}
	for i := 0; i+1 < len(kv); i += 2 {
		p.Add(kv[i], kv[i+1])
	}
	return p
}

func vgBaseTable(n int) gts.FeatureSlice {
	if n < 1 {
		return nil
	}
	ff := gts.FeatureSlice{gts.NewFeature("source", gts.Range(0, n), vgProps("organism", "synthetic construct", "mol_type", "genomic DNA"))}
	if n >= 40 {
		ff = ff.Insert(gts.NewFeature("gene", gts.Range(4, 40), vgProps("gene", "abc")))
		ff = ff.Insert(gts.NewFeature("CDS", gts.Range(4, 40), vgProps("gene", "abc", "codon_start", "1", "product", "hypothetical protein", "translation", "MKV")))
	}
	return ff
}

func vgMake(f GenBankFields, ff gts.FeatureSlice, n int) gts.Sequence {
	return GenBank{f, ff, NewOrigin(vgResidues(n))}
}

// ---- structure-aware random records -------------------------------------------------------
// Every text field is drawn from words over letters, digits and the punctuation that occurs in
// real records (double quotes included), with lengths that straddle the wrap columns; names,
// numbers and keys are drawn over their whole width.

var vgWords = []string{"a", "of", "the", "sp.", "str.", "subsp.", "K-12", "MG1655", "Escherichia", "coli", "virus", "phiX174", "complete", "genome",
	"hypothetical", "protein", "\"quoted\"", "5\"", "DNA-binding", "transcriptional", "regulator,", "(EC", "2.7.7.7)", "5'-end", "alpha/beta", "x=y", "semi;colon", "Monodnaviria", "Malgrandaviricetes", "1", "42", "Z"}

func vgText(rng *rand.Rand, minWords, maxWords int) string {
	n := minWords + rng.Intn(maxWords-minWords+1)
	w := make([]string, n)
	for i := range w {
		w[i] = vgWords[rng.Intn(len(vgWords))]
	}
	return strings.Join(w, " ")
}

// vgLines: text with explicit line breaks (multi-line fields are written with the breaks kept).
func vgLines(rng *rand.Rand, maxLines int) string {
	n := 1 + rng.Intn(maxLines)
	l := make([]string, n)
	for i := range l {
		l[i] = vgText(rng, 1, 9)
	}
	return strings.Join(l, "\n")
}

func vgClip(s string, n int) string {
	if len(s) > n {
		s = strings.TrimSpace(s[:n])
	}
	return s
}

func vgName(rng *rand.Rand, alphabet string, minLen, maxLen int) string {
	n := minLen + rng.Intn(maxLen-minLen+1)
	b := make([]byte, n)
	for i := range b {
		b[i] = alphabet[rng.Intn(len(alphabet))]
	}
	return string(b)
}

// vgRandomLoc: compound locations are built from increasing parts that neither touch nor
// overlap, so that the join reduction (property C06) has nothing to merge.
func vgRandomLoc(rng *rand.Rand, n int) gts.Location {
	leafAt := func(a, b int) gts.Location {
		switch rng.Intn(6) {
		case 0:
			return gts.Point(a)
		case 1:
			return gts.Between(a)
		case 2:
			return gts.PartialRange(a, b, []gts.Partial{gts.Partial5, gts.Partial3, gts.PartialBoth}[rng.Intn(3)])
		}
		return gts.Range(a, b)
	}
	leaf := func() gts.Location {
		a := rng.Intn(n - 1)
		return leafAt(a, a+1+rng.Intn(n-a-1))
	}
	parts := func(k int) []gts.Location {
		// k parts of width w separated by gaps of at least 2
		var out []gts.Location
		step := n / k
		if step < 4 {
			return []gts.Location{leaf()}
		}
		for i := 0; i < k; i++ {
			a := i*step + rng.Intn(step-3)
			b := a + 1 + rng.Intn(i*step+step-2-a)
			l := leafAt(a, b)
			if rng.Intn(5) == 0 {
				l = l.Complement()
			}
			out = append(out, l)
		}
		return out
	}
	switch rng.Intn(8) {
	case 0:
		return leaf().Complement()
	case 1:
		return gts.Join(parts(2 + rng.Intn(12))...)
	case 2:
		return gts.Order(parts(2 + rng.Intn(4))...)
	case 3:
		return gts.Join(parts(2 + rng.Intn(3))...).Complement()
	}
	return leaf()
}

var vgQuotedNames = []string{"note", "gene", "product", "locus_tag", "db_xref", "function", "inference", "protein_id", "translation", "organism", "mol_type"}
var vgLiteralNames = []string{"codon_start", "number", "citation", "transl_table", "estimated_length"}
var vgToggleNames = []string{"pseudo", "partial", "ribosomal_slippage", "trans_splicing", "germline"}
var vgKeys = []string{"source", "gene", "CDS", "misc_feature", "rep_origin", "mat_peptide", "regulatory", "ncRNA", "misc_difference", "a", "V_region", "fifteen_chars_k"}

func vgRandomRecord(rng *rand.Rand) gts.Sequence {
	const upper = "ABCDEFGHIJKLMNOPQRSTUVWXYZ"
	const ident = "ABCDEFGHIJKLMNOPQRSTUVWXYZabcdefghijklmnopqrstuvwxyz0123456789_"
	f := GenBankFields{}
	f.LocusName = vgName(rng, ident, 1, 26)
	f.Molecule = []gts.Molecule{gts.DNA, gts.RNA, gts.SingleStrandDNA, gts.DoubleStrandDNA}[rng.Intn(4)]
	f.Topology = []gts.Topology{gts.Linear, gts.Circular}[rng.Intn(2)]
	f.Division = vgName(rng, upper, 3, 3)
	f.Date = Date{1980 + rng.Intn(60), time.Month(1 + rng.Intn(12)), 1 + rng.Intn(28)}
	f.Definition = vgLines(rng, 3)
	f.Accession = vgName(rng, ident, 1, 12)
	if rng.Intn(4) > 0 {
		f.Version = f.Accession + "." + strconv.Itoa(1+rng.Intn(30))
	}
	for k := rng.Intn(4); k > 0; k-- {
		v := ""
		if rng.Intn(5) > 0 {
			v = vgName(rng, ident, 1, 14)
		}
		f.DBLink = append(f.DBLink, Pair{[]string{"BioProject", "BioSample", "Assembly", "KEGG BRITE"}[len(f.DBLink)%4], v})
	}
	for k := rng.Intn(7); k > 0; k-- {
		f.Keywords = append(f.Keywords, vgText(rng, 1, 3))
	}
	// SOURCE and ORGANISM values stay on one line: the flat-file format cannot tell the
	// continuation of a wrapped organism name from the first line of the lineage
	f.Source.Species = vgClip(vgText(rng, 1, 8), 66)
	f.Source.Name = vgClip(vgText(rng, 1, 8), 66)
	for k := rng.Intn(14); k > 0; k-- {
		f.Source.Taxon = append(f.Source.Taxon, vgText(rng, 1, 4))
	}
	nref := rng.Intn(4)
	for k := 0; k < nref; k++ {
		r := Reference{Number: k + 1}
		if rng.Intn(8) == 0 {
			r.Number = []int{99, 100, 101, 999}[rng.Intn(4)]
		}
		switch rng.Intn(4) {
		case 0:
			r.Info = fmt.Sprintf("(bases %d to %d)", 1+rng.Intn(50), 51+rng.Intn(50))
		case 1:
			r.Info = fmt.Sprintf("(bases %d to %d; %d to %d)", 1+rng.Intn(20), 21+rng.Intn(20), 41+rng.Intn(20), 61+rng.Intn(20))
		case 2:
			r.Info = "(sites)"
		}
		if rng.Intn(5) > 0 {
			r.Authors = vgLines(rng, 3)
		}
		if rng.Intn(4) == 0 {
			r.Group = vgText(rng, 1, 5)
		}
		if rng.Intn(5) > 0 {
			r.Title = vgLines(rng, 3)
		}
		r.Journal = vgLines(rng, 2)
		if rng.Intn(2) == 0 {
			r.Xref = map[string]string{"PUBMED": strconv.Itoa(1 + rng.Intn(9999999))}
		}
		if rng.Intn(4) == 0 {
			r.Comment = vgLines(rng, 2)
		}
		f.References = append(f.References, r)
	}
	for k := rng.Intn(3); k > 0; k-- {
		f.Comments = append(f.Comments, vgLines(rng, 4))
	}
	n := []int{9, 10, 11, 59, 60, 61, 119, 120, 121, 130, 200, 1000}[rng.Intn(12)]
	var ff gts.FeatureSlice
	for k := rng.Intn(7); k > 0; k-- {
		key := vgKeys[rng.Intn(len(vgKeys))]
		if rng.Intn(6) == 0 {
			key = vgName(rng, "abcdefghijklmnopqrstuvwxyz_", 1, 15)
		}
		var props gts.Props
		for q := rng.Intn(6); q > 0; q-- {
			switch rng.Intn(8) {
			case 0:
				props.Add(vgLiteralNames[rng.Intn(len(vgLiteralNames))], strconv.Itoa(1+rng.Intn(11)))
			case 1:
				props.Add(vgToggleNames[rng.Intn(len(vgToggleNames))], "")
			case 2:
				props.Add(vgQuotedNames[rng.Intn(len(vgQuotedNames))], vgLines(rng, 4))
			case 3:
				props.Add(vgQuotedNames[rng.Intn(len(vgQuotedNames))], vgName(rng, "ACDEFGHIKLMNPQRSTVWY", 1, 150))
			default:
				props.Add(vgQuotedNames[rng.Intn(len(vgQuotedNames))], vgText(rng, 0, 14))
			}
		}
		loc := vgRandomLoc(rng, n)
		if rng.Intn(12) == 0 {
			// a key that fills the whole key column: only a location starting with '<' can follow it
			key = vgName(rng, "abcdefghijklmnopqrstuvwxyz", 16, 16)
			a := rng.Intn(n - 1)
			loc = gts.PartialRange(a, a+1+rng.Intn(n-a-1), gts.Partial5)
		}
		ff = ff.Insert(gts.NewFeature(key, loc, props))
	}
	return GenBank{f, ff, NewOrigin(vgResidues(n))}
}

func TestVerifBoundedGenBank(t *testing.T) {
	seed, _ := strconv.ParseInt(os.Getenv("VERIF_SEED"), 10, 64)
	rng := rand.New(rand.NewSource(seed + 11))
	nRandom := 300
	if os.Getenv("VERIF_TIER") == "thorough" {
		nRandom = 6000
	}
	count := 0
	check := func(name string, seq gts.Sequence) {
		count++
		vgCheck(name, seq)
	}
	lengths := []int{0, 1, 9, 10, 11, 59, 60, 61, 119, 120, 121, 130}

	// dimension: residues
	for _, n := range lengths {
		check(fmt.Sprintf("residues=%d", n), vgMake(vgBaseFields(), vgBaseTable(n), n))
	}
	// dimension: locus line
	locusNames := []string{"A", "VERIF1", "ABCDEFGHIJKLMNOP"}
	molecules := []gts.Molecule{gts.DNA, gts.RNA, gts.SingleStrandDNA, gts.DoubleStrandDNA}
	topologies := []gts.Topology{gts.Linear, gts.Circular}
	divisions := []string{"SYN", "PHG", "UNA"}
	dates := []Date{vgDate(1980, time.January, 1), vgDate(2000, time.February, 29), vgDate(1999, time.December, 31), vgDate(2018, time.July, 6)}
	// the first and the last day of every month (2019), the leap day of 2004, the last day of February 1900
	for m := time.January; m <= time.December; m++ {
		last := time.Date(2019, m+1, 0, 0, 0, 0, 0, time.UTC).Day()
		dates = append(dates, vgDate(2019, m, 1), vgDate(2019, m, last))
	}
	dates = append(dates, vgDate(2004, time.February, 29), vgDate(1900, time.February, 28))
	for _, v := range locusNames {
		f := vgBaseFields()
		f.LocusName = v
		check("locus-name="+v, vgMake(f, vgBaseTable(61), 61))
	}
	for _, v := range molecules {
		f := vgBaseFields()
		f.Molecule = v
		check("molecule="+string(v), vgMake(f, vgBaseTable(61), 61))
	}
	for _, v := range topologies {
		f := vgBaseFields()
		f.Topology = v
		check("topology="+v.String(), vgMake(f, vgBaseTable(61), 61))
	}
	for _, v := range divisions {
		f := vgBaseFields()
		f.Division = v
		check("division="+v, vgMake(f, vgBaseTable(61), 61))
	}
	for _, v := range dates {
		f := vgBaseFields()
		f.Date = v
		check(fmt.Sprintf("date=%v", v), vgMake(f, vgBaseTable(61), 61))
	}
	// dimension: header
	definitions := []string{"short", strings.TrimSpace(strings.Repeat("long definition word ", 5)), "Escherichia coli str. K-12 substr. MG1655, complete genome", "Streptomyces sp.", "ends with two periods..", ""}
	for i, v := range definitions {
		f := vgBaseFields()
		f.Definition = v
		check(fmt.Sprintf("definition#%d", i), vgMake(f, vgBaseTable(61), 61))
	}
	versions := [][2]string{{"VERIF1", "VERIF1.1"}, {"VERIF1", ""}, {"AB000001", "AB000001.12"}}
	for i, v := range versions {
		f := vgBaseFields()
		f.Accession, f.Version = v[0], v[1]
		check(fmt.Sprintf("accession#%d", i), vgMake(f, vgBaseTable(61), 61))
	}
	dblinks := []Dictionary{nil, {{"BioProject", "PRJNA14015"}}, {{"BioProject", "PRJNA14015"}, {"BioSample", "SAMN02604091"}}, {{"BioProject", "PRJNA14015"}, {"BioSample", ""}}, {{"BioProject", ""}}}
	for i, v := range dblinks {
		f := vgBaseFields()
		f.DBLink = v
		check(fmt.Sprintf("dblink#%d", i), vgMake(f, vgBaseTable(61), 61))
	}
	keywords := [][]string{nil, {"RefSeq"}, {"alpha", "beta", "gamma delta", "epsilon", "zeta"}}
	for i, v := range keywords {
		f := vgBaseFields()
		f.Keywords = v
		check(fmt.Sprintf("keywords#%d", i), vgMake(f, vgBaseTable(61), 61))
	}
	sources := []Organism{
		{"synthetic construct", "synthetic construct", []string{"other sequences", "artificial sequences"}},
		{"Escherichia virus phiX174", "Escherichia virus phiX174", []string{"Viruses", "Monodnaviria", "Sangervirae", "Phixviricota", "Malgrandaviricetes", "Petitvirales", "Microviridae", "Bullavirinae", "Sinsheimervirus"}},
		{"Escherichia coli str. K-12 substr. MG1655", "Escherichia coli str. K-12 substr. MG1655", []string{"Bacteria"}},
	}
	for i, v := range sources {
		f := vgBaseFields()
		f.Source = v
		check(fmt.Sprintf("source#%d", i), vgMake(f, vgBaseTable(61), 61))
	}
	refs := []Reference{
		{Number: 1, Info: "(bases 1 to 61)", Authors: "Air,G.M., Els,M.C. and Webster,R.G.", Title: "Location of antigenic sites on the three-dimensional structure of the influenza N2 virus neuraminidase", Journal: "Virology 145 (2), 237-248 (1985)", Xref: map[string]string{"PUBMED": "2411049"}, Comment: "Reference comment."},
		{Number: 2, Info: "(bases 2 to 10; 20 to 30)", Authors: "Sanger,F.", Group: "The Consortium", Title: "Direct Submission", Journal: "Submitted (01-JAN-2000) Somewhere"},
		{Number: 3, Info: "(sites)", Authors: "Fiddes,J.C.", Title: "The nucleotide sequence of a viral DNA", Journal: "Sci. Am. 237 (6), 54-67 (1977)"},
		{Number: 4, Authors: "Nobody,N.", Journal: "Unpublished"},
	}
	for k := 0; k <= 4; k++ {
		f := vgBaseFields()
		f.References = append([]Reference(nil), refs[:k]...)
		check(fmt.Sprintf("references=%d", k), vgMake(f, vgBaseTable(61), 61))
	}
	for k := range refs {
		f := vgBaseFields()
		r := refs[k]
		r.Number = 1
		f.References = []Reference{r}
		check(fmt.Sprintf("reference-only#%d", k+1), vgMake(f, vgBaseTable(61), 61))
	}
	comments := [][]string{nil, {"A single comment."}, {"First comment\nover two lines.", "Second comment."}}
	for i, v := range comments {
		f := vgBaseFields()
		f.Comments = v
		check(fmt.Sprintf("comments#%d", i), vgMake(f, vgBaseTable(61), 61))
	}
	// dimension: extra (uncommon) fields: names of 3..12 upper-case letters (12 fills the name
	// column, no padding follows), one- and two-line values; a value after a 12-letter name must
	// not begin with an upper-case letter (it would read as part of the name: format ambiguity)
	extraNames := []string{"PRIMARY", "DBSOURCE", "ABC", "ABCDEFGHIJ", "ABCDEFGHIJK", "ABCDEFGHIJKL"}
	extraValues := []string{"value of an uncommon field", "first line of the value\nsecond line of the value", "1-100 of the record"}
	for i, nm := range extraNames {
		for j, v := range extraValues {
			f := vgBaseFields()
			f.Extra = []ExtraField{GenBankExtraField(nm, v)}
			check(fmt.Sprintf("extra#%d.%d", i, j), vgMake(f, vgBaseTable(61), 61))
			f = vgBaseFields()
			f.Extra = []ExtraField{GenBankExtraField("PRIMARY", "refseq span"), GenBankExtraField(nm, v)}
			check(fmt.Sprintf("extra-pair#%d.%d", i, j), vgMake(f, vgBaseTable(61), 61))
		}
	}
	// dimension: feature table
	long := strings.TrimSpace(strings.Repeat("a long qualifier value ", 7))
	locs := []gts.Location{
		gts.Range(4, 40), gts.PartialRange(4, 40, gts.Partial5), gts.PartialRange(4, 40, gts.Partial3), gts.PartialRange(4, 40, gts.PartialBoth),
		gts.Point(7), gts.Between(7), gts.Range(4, 40).Complement(), gts.Join(gts.Range(4, 10), gts.Range(20, 30)),
		gts.Order(gts.Range(4, 10), gts.Range(20, 30)), gts.Join(gts.Range(4, 10), gts.Range(20, 30)).Complement(),
		gts.Join(gts.Range(20, 30).Complement(), gts.Range(4, 10)), gts.Ambiguous{Start: 4, End: 10},
	}
	for i, l := range locs {
		ff := gts.FeatureSlice{gts.NewFeature("source", gts.Range(0, 61), vgProps("organism", "x"))}
		ff = ff.Insert(gts.NewFeature("misc_feature", l, vgProps("note", "n")))
		check(fmt.Sprintf("location#%d=%s", i, l), vgMake(vgBaseFields(), ff, 61))
	}
	quals := [][]string{
		{"note", "quoted"}, {"codon_start", "1"}, {"pseudo", ""}, {"note", long}, {"note", `a "quoted" word`},
		{"note", "first", "note", "second"}, {"gene", "abc", "pseudo", "", "codon_start", "2", "note", long},
		{"note", ""}, {"unknown_name", "value"}, {"note", "ends with a slash /"}, {"note", "has /a=slash inside the long text " + long},
		{"translation", strings.Repeat("MKVLAAGIVG", 12)},
		{"note", "a first line that is longer than the qualifier indent\nshort\nlast line of the note"},
		{"note", "two lines\nsecond"}, {"note", "blank line inside\n\nafter the blank line"},
		{"note", "x\ny\nz"}, {"note", strings.Repeat("w", 58)}, {"note", strings.Repeat("w", 59)}, {"note", strings.Repeat("w", 57) + " x"},
		{"note", "trailing blank "}, {"note", " leading blank"}, {"note", "semi;colon, comma and (parens) = equals"},
		{"db_xref", "GeneID:944742", "db_xref", "ASAP:ABE-0000008"},
		{"label", "pBR322\\origin"},
		{"note", `"starts with a quote`}, {"note", `ends with a quote"`}, {"note", `"`}, {"note", `""`}, {"note", `two "" together`},
		{"note", `a "quoted" word and a long tail ` + long}, {"unknown_name", `has a "quote"`}, {"note", "line one \"q\"\nline \"two\""},
	}
	for i, q := range quals {
		ff := gts.FeatureSlice{gts.NewFeature("source", gts.Range(0, 61), vgProps("organism", "x"))}
		ff = ff.Insert(gts.NewFeature("CDS", gts.Range(4, 40), vgProps(q...)))
		check(fmt.Sprintf("qualifiers#%d=%v", i, q), vgMake(vgBaseFields(), ff, 61))
	}
	for k := 0; k <= 4; k++ {
		var ff gts.FeatureSlice
		keys := []string{"source", "gene", "CDS", "misc_feature"}
		for j := 0; j < k; j++ {
			ff = ff.Insert(gts.NewFeature(keys[j], gts.Range(j, 40+j), vgProps("note", keys[j])))
		}
		check(fmt.Sprintf("features=%d", k), vgMake(vgBaseFields(), ff, 61))
	}
	check("features=0,residues=0", vgMake(vgBaseFields(), nil, 0))
	{
		f := vgBaseFields()
		f.Contig = Contig{"U00096", gts.Segment{0, 4641652}}
		check("contig-only", GenBank{f, gts.FeatureSlice{gts.NewFeature("source", gts.Range(0, 4641652), vgProps("organism", "x"))}, NewOrigin(nil)})
	}

	// random combinations of all dimensions
	for k := 0; k < nRandom; k++ {
		f := vgBaseFields()
		f.LocusName = locusNames[rng.Intn(len(locusNames))]
		f.Molecule = molecules[rng.Intn(len(molecules))]
		f.Topology = topologies[rng.Intn(len(topologies))]
		f.Division = divisions[rng.Intn(len(divisions))]
		f.Date = dates[rng.Intn(len(dates))]
		f.Definition = definitions[rng.Intn(len(definitions))]
		v := versions[rng.Intn(len(versions))]
		f.Accession, f.Version = v[0], v[1]
		f.DBLink = dblinks[rng.Intn(len(dblinks))]
		f.Keywords = keywords[rng.Intn(len(keywords))]
		f.Source = sources[rng.Intn(len(sources))]
		f.References = append([]Reference(nil), refs[:rng.Intn(4)]...)
		f.Comments = comments[rng.Intn(len(comments))]
		n := lengths[2+rng.Intn(len(lengths)-2)]
		if n < 41 {
			n = 61
		}
		ff := gts.FeatureSlice{gts.NewFeature("source", gts.Range(0, n), vgProps("organism", "x"))}
		for j := rng.Intn(4); j > 0; j-- {
			ff = ff.Insert(gts.NewFeature([]string{"gene", "CDS", "misc_feature"}[rng.Intn(3)], locs[rng.Intn(len(locs))], vgProps(quals[rng.Intn(len(quals))]...)))
		}
		check(fmt.Sprintf("random#%d", k), vgMake(f, ff, n))
	}

	// structure-aware random records
	nStruct := 600
	if os.Getenv("VERIF_TIER") == "thorough" {
		nStruct = 20000
	}
	for k := 0; k < nStruct; k++ {
		check(fmt.Sprintf("structured#%d", k), vgRandomRecord(rng))
	}

	// reader buffer boundaries: the scanner reads its input in 4096-byte blocks; a COMMENT padded
	// with 3000..7095 characters moves every line of the record across a block boundary once
	{
		f := vgBaseFields()
		f.References = append([]Reference(nil), refs[:2]...)
		f.DBLink = dblinks[2]
		ff := vgBaseTable(130)
		ff = ff.Insert(gts.NewFeature("misc_feature", gts.Join(gts.Range(50, 60), gts.Range(70, 80)), vgProps("note", long, "pseudo", "", "codon_start", "1")))
		for k := 0; k < 4096; k++ {
			g := f
			g.Comments = []string{strings.Repeat("x", 3000+k)}
			check(fmt.Sprintf("block-boundary pad=%d", 3000+k), vgMake(g, ff, 130))
		}
	}

	// qualifier names the registries do not know, met in the text of a record (not built through
	// the API): a flag, a quoted and a literal one, with names never seen before in this process.
	// Two copies of the record in one stream must read alike (the first record registers the
	// names for the second), and the record must survive write -> read.
	for k := 0; k < 12; k++ {
		base, err := vgWrite(vgMake(vgBaseFields(), vgBaseTable(61), 61))
		if err != nil {
			break
		}
		uniq := fmt.Sprintf("%d_%d", seed, k)
		inj := "                     /zzflag_" + uniq + "\n                     /zzquoted_" + uniq + "=\"some text\"\n                     /zzliteral_" + uniq + "=12\n"
		marker := "     gene            5..40\n"
		if !strings.Contains(base, marker) {
			vgRec("unknown-qualifier-names", "other", "harness: marker line not found in the written record")
			break
		}
		text := strings.Replace(base, marker, marker+inj, 1)
		if k%2 == 1 {
			text = strings.ReplaceAll(text, "\n", "\r\n")
		}
		count++
		got, err := vgRead(text + text)
		if err != nil || len(got) != 2 {
			vgRec("unknown-qualifier-names", "other", fmt.Sprintf("two copies: read %d records, err=%v", len(got), err))
			continue
		}
		if d := vgFeatDiff(got[0].Features(), got[1].Features()); d != "" {
			vgRec("unknown-qualifier-names", "other", "first and second copy of one record read differently: "+d)
		}
		for _, name := range []string{"zzflag_" + uniq, "zzquoted_" + uniq, "zzliteral_" + uniq} {
			found := false
			for _, f := range got[0].Features() {
				if f.Props.Has(name) {
					found = true
				}
			}
			if !found {
				vgRec("unknown-qualifier-names", "other", "qualifier /"+name+" is not in the table read")
			}
		}
		check("unknown-qualifier-names#"+uniq, got[0])
	}

	// streams
	for n := 1; n <= 4; n++ {
		var seqs []gts.Sequence
		for k := 0; k < n; k++ {
			f := vgBaseFields()
			f.LocusName = fmt.Sprintf("REC%d", k)
			f.References = append([]Reference(nil), refs[:k%3]...)
			seqs = append(seqs, vgMake(f, vgBaseTable(lengths[(k*5+n)%len(lengths)]), lengths[(k*5+n)%len(lengths)]))
		}
		count++
		s, err := vgWrite(seqs...)
		if err != nil {
			vgRec("stream-framed-independently", "other", fmt.Sprintf("stream of %d: %v", n, err))
			continue
		}
		got, err := vgRead(s)
		if err != nil || len(got) != n {
			vgRec("stream-framed-independently", "other", fmt.Sprintf("stream of %d: read %d records, err=%v", n, len(got), err))
			continue
		}
		for k := range got {
			one, _ := vgWrite(seqs[k])
			again, _ := vgWrite(got[k])
			if one != again {
				vgRec("stream-framed-independently", "other", fmt.Sprintf("stream of %d, record %d: %s", n, k, vgDiff(one, again)))
			}
		}
	}

	// pipelines over the corpus and the base record
	type op struct {
		name string
		f    func(seq gts.Sequence) gts.Sequence
	}
	var inputs []struct {
		name string
		seq  gts.Sequence
	}
	for _, fn := range []string{"NC_001422.gb", "NC_001422_part.gb", "pBAT5.txt", "NC_000913.3.min.gb"} {
		b, err := os.ReadFile("testdata/" + fn)
		if err != nil {
			continue
		}
		seqs, err := vgRead(string(b))
		if err != nil || len(seqs) == 0 {
			vgRec("written-record-parses", "other", fmt.Sprintf("corpus file %s does not parse: %v", fn, err))
			continue
		}
		check("corpus:"+fn, seqs[0])
		// the residues read from a corpus file are as many as its LOCUS line declares
		if w := strings.Fields(strings.SplitN(string(b), "\n", 2)[0]); len(w) > 2 {
			if declared, err := strconv.Atoi(w[2]); err == nil && strings.Contains(string(b), "\nORIGIN") && declared != len(seqs[0].Bytes()) {
				vgRec("corpus-declared-length", "other", fmt.Sprintf("%s: LOCUS declares %d, %d residues read", fn, declared, len(seqs[0].Bytes())))
			}
		}
		if gts.Len(seqs[0]) <= 6000 {
			inputs = append(inputs, struct {
				name string
				seq  gts.Sequence
			}{fn, seqs[0]})
		}
	}
	{
		f := vgBaseFields()
		f.References = append([]Reference(nil), refs[:3]...)
		f.Topology = gts.Circular
		inputs = append(inputs, struct {
			name string
			seq  gts.Sequence
		}{"base130", vgMake(f, vgBaseTable(130), 130)})
	}
	{
		// a record that carries both a CONTIG field and residues
		f := vgBaseFields()
		f.Division = "CON"
		f.Contig = Contig{"U00096", gts.Segment{0, 130}}
		in := vgMake(f, vgBaseTable(130), 130)
		check("contig+origin", in)
		inputs = append(inputs, struct {
			name string
			seq  gts.Sequence
		}{"contig+origin130", in})
		f.Contig = Contig{"U00096", gts.Segment{10, 500}}
		check("contig(other span)+origin", vgMake(f, vgBaseTable(130), 130))
	}
	safe := func(o op, seq gts.Sequence) (out gts.Sequence, err error) {
		defer func() {
			if r := recover(); r != nil {
				err = fmt.Errorf("panic in %s: %v", o.name, r)
			}
		}()
		return o.f(seq), nil
	}
	for _, in := range inputs {
		n := gts.Len(in.seq)
		ops := []op{
			{"Slice(10,100)", func(s gts.Sequence) gts.Sequence { return gts.Slice(s, 10, 100) }},
			{"Slice(0,1)", func(s gts.Sequence) gts.Sequence { return gts.Slice(s, 0, 1) }},
			{"Slice(0,60)", func(s gts.Sequence) gts.Sequence { return gts.Slice(s, 0, 60) }},
			{"Slice(0,61)", func(s gts.Sequence) gts.Sequence { return gts.Slice(s, 0, 61) }},
			{"Slice(3,5)", func(s gts.Sequence) gts.Sequence { return gts.Slice(s, 3, 5) }},
			{"Slice(n-20,20)", func(s gts.Sequence) gts.Sequence { return gts.Slice(s, n-20, 20) }},
			{"Slice(5,5)", func(s gts.Sequence) gts.Sequence { return gts.Slice(s, 5, 5) }},
			{"Delete(20,30)", func(s gts.Sequence) gts.Sequence { return gts.Delete(s, 20, 30) }},
			{"Erase(20,30)", func(s gts.Sequence) gts.Sequence { return gts.Erase(s, 20, 30) }},
			{"Insert(30,Slice(5,50))", func(s gts.Sequence) gts.Sequence { return gts.Insert(s, 30, gts.Slice(s, 5, 50)) }},
			{"Embed(30,Slice(5,50))", func(s gts.Sequence) gts.Sequence { return gts.Embed(s, 30, gts.Slice(s, 5, 50)) }},
			{"Rotate(25)", func(s gts.Sequence) gts.Sequence { return gts.Rotate(s, 25) }},
			{"Rotate(-7)", func(s gts.Sequence) gts.Sequence { return gts.Rotate(s, -7) }},
			{"Reverse", func(s gts.Sequence) gts.Sequence { return gts.Reverse(s) }},
			{"Complement", func(s gts.Sequence) gts.Sequence { return gts.Complement(s) }},
			{"Concat(Slice(0,40),Slice(60,100))", func(s gts.Sequence) gts.Sequence { return gts.Concat(gts.Slice(s, 0, 40), gts.Slice(s, 60, 100)) }},
			{"WithFeatures(nil)", func(s gts.Sequence) gts.Sequence { return gts.WithFeatures(s, nil) }},
			{"Delete(0,n)", func(s gts.Sequence) gts.Sequence { return gts.Delete(s, 0, n) }},
		}
		for _, o := range ops {
			out, err := safe(o, in.seq)
			if err != nil {
				continue // the edit itself failing is not this property's concern
			}
			check(in.name+"|"+o.name, out)
			if gts.Len(out) < 110 {
				continue
			}
			for _, o2 := range ops[:16] {
				out2, err := safe(o2, out)
				if err != nil {
					continue
				}
				check(in.name+"|"+o.name+"|"+o2.name, out2)
			}
		}
	}

	fmt.Printf("VB-STATS records=%d random=%d\n", count, nRandom)
	var keys []string
	for k := range vgFails {
		keys = append(keys, k)
	}
	sort.Strings(keys)
	for _, k := range keys {
		fmt.Printf("VB-FAIL\t%s\t%d\t%s\n", k, vgFails[k].n, vgFails[k].example)
	}
}
