package seqio

// Bounded stand-in for property C01 (GenBank write -> read -> write).  Injected into package
// seqio with `go test -overlay` by /verif/gvc (never written into /repo).  GenBank.String, the
// feature-table formatter and the field parsers are built from fmt, strings, go-wrap and go-pars
// combinators (outside the verified subset); here the real writer and the real auto-detecting
// scanner are run on every record within the bound.
//
// Bound (records built through the API, one dimension varied at a time around a base record, plus
// seeded random combinations of all dimensions: 300 quick / 6000 thorough):
//   residues     0, 1, 9, 10, 11, 59, 60, 61, 119, 120, 121, 130 (ORIGIN line/group boundaries)
//   locus        names of 1, 6 and 16 characters; DNA, RNA, ss-DNA, ds-DNA; linear, circular;
//                divisions SYN, PHG, UNA; dates 01-JAN-1980, 29-FEB-2000, 31-DEC-1999, 06-JUL-2018
//   header       definition short / 100 characters / with an inner period; accession with and
//                without version; DBLINK 0..2 pairs; keywords none / one / five; source, organism,
//                taxonomy short and wrapped; 0..3 references with any subset of AUTHORS, CONSRTM,
//                TITLE, JOURNAL, PUBMED, REMARK and range info; 0..2 comments (one multi-line)
//   features     0..4 features; keys source, gene, CDS, misc_feature; locations: range, partial
//                ranges, point, between-site, complement, join, order, complement(join);
//                qualifiers: quoted, literal (/codon_start=1), toggle (/pseudo), a 150-character
//                quoted value (wraps), a value with a doubled quote, two qualifiers of one name
//   streams      1..4 records written one after the other into one stream
//   pipelines    the four records of seqio/testdata and the base record, after each of
//                Slice (inner, prefix of 1/60/61, origin-spanning, empty), Delete, Erase, Insert,
//                Embed, Rotate, Reverse, Concat, WithFeatures(nil), and after pairs of them
// Clauses: record-writes, written-record-parses, residues-kept, features-kept, header-kept,
// write-read-write-fixed-point, stream-framed-independently, corpus-declared-length (the four
// files of seqio/testdata are read with as many residues as their LOCUS line declares).
// Defect classes told apart by the input: embedded-quote (some qualifier value contains a double
// quote), empty-region (the record is an empty slice).

import (
	"bytes"
	"fmt"
	"math/rand"
	"os"
	"reflect"
	"sort"
	"strconv"
	"strings"
	"testing"
	"time"

	"github.com/go-gts/gts"
)

type vgFail struct {
	n       int
	example string
}

var vgFails = map[string]*vgFail{}

func vgRec(clause, label, example string) {
	k := clause + "\t" + label
	f := vgFails[k]
	if f == nil {
		if len(example) > 900 {
			example = example[:900] + "..."
		}
		f = &vgFail{example: strings.ReplaceAll(example, "\n", "\\n")}
		vgFails[k] = f
	}
	f.n++
}

func vgWrite(seqs ...gts.Sequence) (s string, err error) {
	defer func() {
		if r := recover(); r != nil {
			err = fmt.Errorf("panic while writing: %v", r)
		}
	}()
	buf := &bytes.Buffer{}
	w := NewWriter(buf, GenBankFile)
	for _, q := range seqs {
		if _, err := w.WriteSeq(q); err != nil {
			return "", err
		}
	}
	return buf.String(), nil
}

func vgRead(s string) (out []gts.Sequence, err error) {
	defer func() {
		if r := recover(); r != nil {
			err = fmt.Errorf("panic while reading: %v", r)
		}
	}()
	sc := NewAutoScanner(strings.NewReader(s))
	for sc.Scan() {
		out = append(out, sc.Value())
		if len(out) > 16 {
			return out, fmt.Errorf("more than 16 records")
		}
	}
	return out, sc.Err()
}

func vgDiff(a, b string) string {
	la, lb := strings.Split(a, "\n"), strings.Split(b, "\n")
	for i := 0; i < len(la) && i < len(lb); i++ {
		if la[i] != lb[i] {
			return fmt.Sprintf("line %d: first %q second %q", i+1, la[i], lb[i])
		}
	}
	return fmt.Sprintf("line counts %d and %d", len(la), len(lb))
}

func vgFields(seq gts.Sequence) (GenBankFields, bool) {
	f, ok := seq.Info().(GenBankFields)
	return f, ok
}

// vgHeaderDiff compares the header fields one by one (ExtraField carries a function value, so
// reflect.DeepEqual on the whole struct is not usable).
func vgHeaderDiff(a, b GenBankFields) string {
	var d []string
	chk := func(name string, x, y interface{}) {
		if !reflect.DeepEqual(x, y) {
			d = append(d, fmt.Sprintf("%s: wrote %#v read %#v", name, x, y))
		}
	}
	chk("LocusName", a.LocusName, b.LocusName)
	chk("Molecule", a.Molecule, b.Molecule)
	chk("Topology", a.Topology, b.Topology)
	chk("Division", a.Division, b.Division)
	chk("Date", a.Date, b.Date)
	chk("Definition", a.Definition, b.Definition)
	chk("Accession", a.Accession, b.Accession)
	chk("Version", a.Version, b.Version)
	if len(a.DBLink) != 0 || len(b.DBLink) != 0 {
		chk("DBLink", a.DBLink, b.DBLink)
	}
	if len(a.Keywords) != 0 || len(b.Keywords) != 0 {
		chk("Keywords", a.Keywords, b.Keywords)
	}
	chk("Source.Species", a.Source.Species, b.Source.Species)
	chk("Source.Name", a.Source.Name, b.Source.Name)
	if len(a.Source.Taxon) != 0 || len(b.Source.Taxon) != 0 {
		chk("Source.Taxon", a.Source.Taxon, b.Source.Taxon)
	}
	if len(a.References) != len(b.References) {
		chk("References(count)", len(a.References), len(b.References))
	} else {
		for i := range a.References {
			x, y := a.References[i], b.References[i]
			if len(x.Xref) == 0 && len(y.Xref) == 0 {
				x.Xref, y.Xref = nil, nil
			}
			chk(fmt.Sprintf("References[%d]", i), x, y)
		}
	}
	if len(a.Comments) != 0 || len(b.Comments) != 0 {
		chk("Comments", a.Comments, b.Comments)
	}
	if len(a.Extra) != len(b.Extra) {
		chk("Extra(count)", len(a.Extra), len(b.Extra))
	} else {
		for i := range a.Extra {
			chk(fmt.Sprintf("Extra[%d]", i), [2]string{a.Extra[i].Name, a.Extra[i].Value}, [2]string{b.Extra[i].Name, b.Extra[i].Value})
		}
	}
	chk("Contig", a.Contig, b.Contig)
	chk("Region", a.Region, b.Region)
	return strings.Join(d, "; ")
}

func vgFeatDiff(a, b gts.FeatureSlice) string {
	if len(a) != len(b) {
		return fmt.Sprintf("wrote %d features, read %d", len(a), len(b))
	}
	for i := range a {
		if a[i].Key != b[i].Key {
			return fmt.Sprintf("feature %d: key wrote %q read %q", i, a[i].Key, b[i].Key)
		}
		if a[i].Loc.String() != b[i].Loc.String() {
			return fmt.Sprintf("feature %d: location wrote %s read %s", i, a[i].Loc, b[i].Loc)
		}
		if !reflect.DeepEqual([][]string(a[i].Props), [][]string(b[i].Props)) {
			return fmt.Sprintf("feature %d (%s): qualifiers wrote %v read %v", i, a[i].Key, a[i].Props, b[i].Props)
		}
	}
	return ""
}

// vgCheck runs the clauses on one record; name identifies the input in the report.
func vgCheck(name string, seq gts.Sequence) {
	s1, err := vgWrite(seq)
	if err != nil {
		vgRec("record-writes", vgLabel(name, seq, err.Error()), name+": "+err.Error())
		return
	}
	got, err := vgRead(s1)
	if err != nil || len(got) != 1 {
		msg := fmt.Sprintf("%s: read %d records, err=%v; text: %s", name, len(got), err, s1)
		vgRec("written-record-parses", vgLabel(name, seq, fmt.Sprint(err)), msg)
		return
	}
	back := got[0]
	if !bytes.Equal(back.Bytes(), seq.Bytes()) {
		vgRec("residues-kept", vgLabel(name, seq, ""), fmt.Sprintf("%s: wrote %d residues, read %d", name, len(seq.Bytes()), len(back.Bytes())))
	}
	if d := vgFeatDiff(seq.Features(), back.Features()); d != "" {
		vgRec("features-kept", vgLabel(name, seq, d), name+": "+d)
	}
	fa, oka := vgFields(seq)
	fb, okb := vgFields(back)
	if oka && okb {
		if d := vgHeaderDiff(fa, fb); d != "" {
			vgRec("header-kept", vgLabel(name, seq, d), name+": "+d)
		}
	}
	s2, err := vgWrite(back)
	if err != nil {
		vgRec("write-read-write-fixed-point", vgLabel(name, seq, err.Error()), name+": rewrite: "+err.Error())
	} else if s1 != s2 {
		d := vgDiff(s1, s2)
		vgRec("write-read-write-fixed-point", vgLabel(name, seq, d), name+": "+d)
	}
}

// vgLabel sorts a failure into a defect class (the classes that are recorded as known findings
// get a name; everything else is "other").
func vgLabel(name string, seq gts.Sequence, detail string) string {
	if os.Getenv("VERIF_PROBE") != "" {
		// development aid: one class per set of differing header fields / first words of the detail
		var names []string
		for _, part := range strings.Split(detail, "; ") {
			if i := strings.Index(part, ": wrote "); i > 0 {
				names = append(names, strings.SplitN(part[:i], "[", 2)[0])
			}
		}
		if len(names) > 0 {
			sort.Strings(names)
			return strings.Join(names, "+")
		}
		w := strings.Fields(detail)
		if len(w) > 6 {
			w = w[:6]
		}
		return strings.Join(w, "_")
	}
	// the two recorded defect classes, delimited by the input
	for _, f := range seq.Features() {
		for _, kv := range f.Props {
			for _, v := range kv[1:] {
				if strings.Contains(v, `"`) {
					return "embedded-quote"
				}
			}
		}
	}
	if f, ok := vgFields(seq); ok {
		if seg, ok := f.Region.(gts.Segment); ok && seg[0] == seg[1] {
			return "empty-region"
		}
	}
	return "other"
}

func vgDate(y int, m time.Month, d int) Date { return Date{y, m, d} }

func vgBaseFields() GenBankFields {
	return GenBankFields{
		LocusName: "VERIF1", Molecule: gts.DNA, Topology: gts.Linear, Division: "SYN", Date: vgDate(2018, time.July, 6),
		Definition: "bounded harness record", Accession: "VERIF1", Version: "VERIF1.1",
		Keywords: nil,
		Source:   Organism{Species: "synthetic construct", Name: "synthetic construct", Taxon: []string{"other sequences", "artificial sequences"}},
	}
}

func vgResidues(n int) []byte {
	p := make([]byte, n)
	for i := range p {
		p[i] = "acgt"[(i*7+i/3)%4]
	}
	return p
}

func vgProps(kv ...string) gts.Props {
	p := gts.Props{}
	for i := 0; i+1 < len(kv); i += 2 {
		p.Add(kv[i], kv[i+1])
	}
	return p
}

func vgBaseTable(n int) gts.FeatureSlice {
	if n < 1 {
		return nil
	}
	ff := gts.FeatureSlice{gts.NewFeature("source", gts.Range(0, n), vgProps("organism", "synthetic construct", "mol_type", "genomic DNA"))}
	if n >= 40 {
		ff = ff.Insert(gts.NewFeature("gene", gts.Range(4, 40), vgProps("gene", "abc")))
		ff = ff.Insert(gts.NewFeature("CDS", gts.Range(4, 40), vgProps("gene", "abc", "codon_start", "1", "product", "hypothetical protein", "translation", "MKV")))
	}
	return ff
}

func vgMake(f GenBankFields, ff gts.FeatureSlice, n int) gts.Sequence {
	return GenBank{f, ff, NewOrigin(vgResidues(n))}
}

func TestVerifBoundedGenBank(t *testing.T) {
	seed, _ := strconv.ParseInt(os.Getenv("VERIF_SEED"), 10, 64)
	rng := rand.New(rand.NewSource(seed + 11))
	nRandom := 300
	if os.Getenv("VERIF_TIER") == "thorough" {
		nRandom = 6000
	}
	count := 0
	check := func(name string, seq gts.Sequence) {
		count++
		vgCheck(name, seq)
	}
	lengths := []int{0, 1, 9, 10, 11, 59, 60, 61, 119, 120, 121, 130}

	// dimension: residues
	for _, n := range lengths {
		check(fmt.Sprintf("residues=%d", n), vgMake(vgBaseFields(), vgBaseTable(n), n))
	}
	// dimension: locus line
	locusNames := []string{"A", "VERIF1", "ABCDEFGHIJKLMNOP"}
	molecules := []gts.Molecule{gts.DNA, gts.RNA, gts.SingleStrandDNA, gts.DoubleStrandDNA}
	topologies := []gts.Topology{gts.Linear, gts.Circular}
	divisions := []string{"SYN", "PHG", "UNA"}
	dates := []Date{vgDate(1980, time.January, 1), vgDate(2000, time.February, 29), vgDate(1999, time.December, 31), vgDate(2018, time.July, 6)}
	for _, v := range locusNames {
		f := vgBaseFields()
		f.LocusName = v
		check("locus-name="+v, vgMake(f, vgBaseTable(61), 61))
	}
	for _, v := range molecules {
		f := vgBaseFields()
		f.Molecule = v
		check("molecule="+string(v), vgMake(f, vgBaseTable(61), 61))
	}
	for _, v := range topologies {
		f := vgBaseFields()
		f.Topology = v
		check("topology="+v.String(), vgMake(f, vgBaseTable(61), 61))
	}
	for _, v := range divisions {
		f := vgBaseFields()
		f.Division = v
		check("division="+v, vgMake(f, vgBaseTable(61), 61))
	}
	for _, v := range dates {
		f := vgBaseFields()
		f.Date = v
		check(fmt.Sprintf("date=%v", v), vgMake(f, vgBaseTable(61), 61))
	}
	// dimension: header
	definitions := []string{"short", strings.TrimSpace(strings.Repeat("long definition word ", 5)), "Escherichia coli str. K-12 substr. MG1655, complete genome"}
	for i, v := range definitions {
		f := vgBaseFields()
		f.Definition = v
		check(fmt.Sprintf("definition#%d", i), vgMake(f, vgBaseTable(61), 61))
	}
	versions := [][2]string{{"VERIF1", "VERIF1.1"}, {"VERIF1", ""}, {"AB000001", "AB000001.12"}}
	for i, v := range versions {
		f := vgBaseFields()
		f.Accession, f.Version = v[0], v[1]
		check(fmt.Sprintf("accession#%d", i), vgMake(f, vgBaseTable(61), 61))
	}
	dblinks := []Dictionary{nil, {{"BioProject", "PRJNA14015"}}, {{"BioProject", "PRJNA14015"}, {"BioSample", "SAMN02604091"}}}
	for i, v := range dblinks {
		f := vgBaseFields()
		f.DBLink = v
		check(fmt.Sprintf("dblink#%d", i), vgMake(f, vgBaseTable(61), 61))
	}
	keywords := [][]string{nil, {"RefSeq"}, {"alpha", "beta", "gamma delta", "epsilon", "zeta"}}
	for i, v := range keywords {
		f := vgBaseFields()
		f.Keywords = v
		check(fmt.Sprintf("keywords#%d", i), vgMake(f, vgBaseTable(61), 61))
	}
	sources := []Organism{
		{"synthetic construct", "synthetic construct", []string{"other sequences", "artificial sequences"}},
		{"Escherichia virus phiX174", "Escherichia virus phiX174", []string{"Viruses", "Monodnaviria", "Sangervirae", "Phixviricota", "Malgrandaviricetes", "Petitvirales", "Microviridae", "Bullavirinae", "Sinsheimervirus"}},
		{"Escherichia coli str. K-12 substr. MG1655", "Escherichia coli str. K-12 substr. MG1655", []string{"Bacteria"}},
	}
	for i, v := range sources {
		f := vgBaseFields()
		f.Source = v
		check(fmt.Sprintf("source#%d", i), vgMake(f, vgBaseTable(61), 61))
	}
	refs := []Reference{
		{Number: 1, Info: "(bases 1 to 61)", Authors: "Air,G.M., Els,M.C. and Webster,R.G.", Title: "Location of antigenic sites on the three-dimensional structure of the influenza N2 virus neuraminidase", Journal: "Virology 145 (2), 237-248 (1985)", Xref: map[string]string{"PUBMED": "2411049"}, Comment: "Reference comment."},
		{Number: 2, Info: "(bases 2 to 10; 20 to 30)", Authors: "Sanger,F.", Group: "The Consortium", Title: "Direct Submission", Journal: "Submitted (01-JAN-2000) Somewhere"},
		{Number: 3, Info: "(sites)", Authors: "Fiddes,J.C.", Title: "The nucleotide sequence of a viral DNA", Journal: "Sci. Am. 237 (6), 54-67 (1977)"},
		{Number: 4, Authors: "Nobody,N.", Journal: "Unpublished"},
	}
	for k := 0; k <= 4; k++ {
		f := vgBaseFields()
		f.References = append([]Reference(nil), refs[:k]...)
		check(fmt.Sprintf("references=%d", k), vgMake(f, vgBaseTable(61), 61))
	}
	for k := range refs {
		f := vgBaseFields()
		r := refs[k]
		r.Number = 1
		f.References = []Reference{r}
		check(fmt.Sprintf("reference-only#%d", k+1), vgMake(f, vgBaseTable(61), 61))
	}
	comments := [][]string{nil, {"A single comment."}, {"First comment\nover two lines.", "Second comment."}}
	for i, v := range comments {
		f := vgBaseFields()
		f.Comments = v
		check(fmt.Sprintf("comments#%d", i), vgMake(f, vgBaseTable(61), 61))
	}
	// dimension: feature table
	long := strings.TrimSpace(strings.Repeat("a long qualifier value ", 7))
	locs := []gts.Location{
		gts.Range(4, 40), gts.PartialRange(4, 40, gts.Partial5), gts.PartialRange(4, 40, gts.Partial3), gts.PartialRange(4, 40, gts.PartialBoth),
		gts.Point(7), gts.Between(7), gts.Range(4, 40).Complement(), gts.Join(gts.Range(4, 10), gts.Range(20, 30)),
		gts.Order(gts.Range(4, 10), gts.Range(20, 30)), gts.Join(gts.Range(4, 10), gts.Range(20, 30)).Complement(),
		gts.Join(gts.Range(20, 30).Complement(), gts.Range(4, 10)), gts.Ambiguous{Start: 4, End: 10},
	}
	for i, l := range locs {
		ff := gts.FeatureSlice{gts.NewFeature("source", gts.Range(0, 61), vgProps("organism", "x"))}
		ff = ff.Insert(gts.NewFeature("misc_feature", l, vgProps("note", "n")))
		check(fmt.Sprintf("location#%d=%s", i, l), vgMake(vgBaseFields(), ff, 61))
	}
	quals := [][]string{
		{"note", "quoted"}, {"codon_start", "1"}, {"pseudo", ""}, {"note", long}, {"note", `a "quoted" word`},
		{"note", "first", "note", "second"}, {"gene", "abc", "pseudo", "", "codon_start", "2", "note", long},
		{"note", ""}, {"unknown_name", "value"}, {"note", "ends with a slash /"}, {"note", "has /a=slash inside the long text " + long},
		{"translation", strings.Repeat("MKVLAAGIVG", 12)},
	}
	for i, q := range quals {
		ff := gts.FeatureSlice{gts.NewFeature("source", gts.Range(0, 61), vgProps("organism", "x"))}
		ff = ff.Insert(gts.NewFeature("CDS", gts.Range(4, 40), vgProps(q...)))
		check(fmt.Sprintf("qualifiers#%d=%v", i, q), vgMake(vgBaseFields(), ff, 61))
	}
	for k := 0; k <= 4; k++ {
		var ff gts.FeatureSlice
		keys := []string{"source", "gene", "CDS", "misc_feature"}
		for j := 0; j < k; j++ {
			ff = ff.Insert(gts.NewFeature(keys[j], gts.Range(j, 40+j), vgProps("note", keys[j])))
		}
		check(fmt.Sprintf("features=%d", k), vgMake(vgBaseFields(), ff, 61))
	}
	check("features=0,residues=0", vgMake(vgBaseFields(), nil, 0))
	{
		f := vgBaseFields()
		f.Contig = Contig{"U00096", gts.Segment{0, 4641652}}
		check("contig-only", GenBank{f, gts.FeatureSlice{gts.NewFeature("source", gts.Range(0, 4641652), vgProps("organism", "x"))}, NewOrigin(nil)})
	}

	// random combinations of all dimensions
	for k := 0; k < nRandom; k++ {
		f := vgBaseFields()
		f.LocusName = locusNames[rng.Intn(len(locusNames))]
		f.Molecule = molecules[rng.Intn(len(molecules))]
		f.Topology = topologies[rng.Intn(len(topologies))]
		f.Division = divisions[rng.Intn(len(divisions))]
		f.Date = dates[rng.Intn(len(dates))]
		f.Definition = definitions[rng.Intn(len(definitions))]
		v := versions[rng.Intn(len(versions))]
		f.Accession, f.Version = v[0], v[1]
		f.DBLink = dblinks[rng.Intn(len(dblinks))]
		f.Keywords = keywords[rng.Intn(len(keywords))]
		f.Source = sources[rng.Intn(len(sources))]
		f.References = append([]Reference(nil), refs[:rng.Intn(4)]...)
		f.Comments = comments[rng.Intn(len(comments))]
		n := lengths[2+rng.Intn(len(lengths)-2)]
		if n < 41 {
			n = 61
		}
		ff := gts.FeatureSlice{gts.NewFeature("source", gts.Range(0, n), vgProps("organism", "x"))}
		for j := rng.Intn(4); j > 0; j-- {
			ff = ff.Insert(gts.NewFeature([]string{"gene", "CDS", "misc_feature"}[rng.Intn(3)], locs[rng.Intn(len(locs))], vgProps(quals[rng.Intn(len(quals))]...)))
		}
		check(fmt.Sprintf("random#%d", k), vgMake(f, ff, n))
	}

	// streams
	for n := 1; n <= 4; n++ {
		var seqs []gts.Sequence
		for k := 0; k < n; k++ {
			f := vgBaseFields()
			f.LocusName = fmt.Sprintf("REC%d", k)
			f.References = append([]Reference(nil), refs[:k%3]...)
			seqs = append(seqs, vgMake(f, vgBaseTable(lengths[(k*5+n)%len(lengths)]), lengths[(k*5+n)%len(lengths)]))
		}
		count++
		s, err := vgWrite(seqs...)
		if err != nil {
			vgRec("stream-framed-independently", "other", fmt.Sprintf("stream of %d: %v", n, err))
			continue
		}
		got, err := vgRead(s)
		if err != nil || len(got) != n {
			vgRec("stream-framed-independently", "other", fmt.Sprintf("stream of %d: read %d records, err=%v", n, len(got), err))
			continue
		}
		for k := range got {
			one, _ := vgWrite(seqs[k])
			again, _ := vgWrite(got[k])
			if one != again {
				vgRec("stream-framed-independently", "other", fmt.Sprintf("stream of %d, record %d: %s", n, k, vgDiff(one, again)))
			}
		}
	}

	// pipelines over the corpus and the base record
	type op struct {
		name string
		f    func(seq gts.Sequence) gts.Sequence
	}
	var inputs []struct {
		name string
		seq  gts.Sequence
	}
	for _, fn := range []string{"NC_001422.gb", "NC_001422_part.gb", "pBAT5.txt", "NC_000913.3.min.gb"} {
		b, err := os.ReadFile("testdata/" + fn)
		if err != nil {
			continue
		}
		seqs, err := vgRead(string(b))
		if err != nil || len(seqs) == 0 {
			vgRec("written-record-parses", "other", fmt.Sprintf("corpus file %s does not parse: %v", fn, err))
			continue
		}
		check("corpus:"+fn, seqs[0])
		// the residues read from a corpus file are as many as its LOCUS line declares
		if w := strings.Fields(strings.SplitN(string(b), "\n", 2)[0]); len(w) > 2 {
			if declared, err := strconv.Atoi(w[2]); err == nil && strings.Contains(string(b), "\nORIGIN") && declared != len(seqs[0].Bytes()) {
				vgRec("corpus-declared-length", "other", fmt.Sprintf("%s: LOCUS declares %d, %d residues read", fn, declared, len(seqs[0].Bytes())))
			}
		}
		if gts.Len(seqs[0]) <= 6000 {
			inputs = append(inputs, struct {
				name string
				seq  gts.Sequence
			}{fn, seqs[0]})
		}
	}
	{
		f := vgBaseFields()
		f.References = append([]Reference(nil), refs[:3]...)
		f.Topology = gts.Circular
		inputs = append(inputs, struct {
			name string
			seq  gts.Sequence
		}{"base130", vgMake(f, vgBaseTable(130), 130)})
	}
	safe := func(o op, seq gts.Sequence) (out gts.Sequence, err error) {
		defer func() {
			if r := recover(); r != nil {
				err = fmt.Errorf("panic in %s: %v", o.name, r)
			}
		}()
		return o.f(seq), nil
	}
	for _, in := range inputs {
		n := gts.Len(in.seq)
		ops := []op{
			{"Slice(10,100)", func(s gts.Sequence) gts.Sequence { return gts.Slice(s, 10, 100) }},
			{"Slice(0,1)", func(s gts.Sequence) gts.Sequence { return gts.Slice(s, 0, 1) }},
			{"Slice(0,60)", func(s gts.Sequence) gts.Sequence { return gts.Slice(s, 0, 60) }},
			{"Slice(0,61)", func(s gts.Sequence) gts.Sequence { return gts.Slice(s, 0, 61) }},
			{"Slice(3,5)", func(s gts.Sequence) gts.Sequence { return gts.Slice(s, 3, 5) }},
			{"Slice(n-20,20)", func(s gts.Sequence) gts.Sequence { return gts.Slice(s, n-20, 20) }},
			{"Slice(5,5)", func(s gts.Sequence) gts.Sequence { return gts.Slice(s, 5, 5) }},
			{"Delete(20,30)", func(s gts.Sequence) gts.Sequence { return gts.Delete(s, 20, 30) }},
			{"Erase(20,30)", func(s gts.Sequence) gts.Sequence { return gts.Erase(s, 20, 30) }},
			{"Insert(30,Slice(5,50))", func(s gts.Sequence) gts.Sequence { return gts.Insert(s, 30, gts.Slice(s, 5, 50)) }},
			{"Embed(30,Slice(5,50))", func(s gts.Sequence) gts.Sequence { return gts.Embed(s, 30, gts.Slice(s, 5, 50)) }},
			{"Rotate(25)", func(s gts.Sequence) gts.Sequence { return gts.Rotate(s, 25) }},
			{"Rotate(-7)", func(s gts.Sequence) gts.Sequence { return gts.Rotate(s, -7) }},
			{"Reverse", func(s gts.Sequence) gts.Sequence { return gts.Reverse(s) }},
			{"Complement", func(s gts.Sequence) gts.Sequence { return gts.Complement(s) }},
			{"Concat(Slice(0,40),Slice(60,100))", func(s gts.Sequence) gts.Sequence { return gts.Concat(gts.Slice(s, 0, 40), gts.Slice(s, 60, 100)) }},
			{"WithFeatures(nil)", func(s gts.Sequence) gts.Sequence { return gts.WithFeatures(s, nil) }},
			{"Delete(0,n)", func(s gts.Sequence) gts.Sequence { return gts.Delete(s, 0, n) }},
		}
		for _, o := range ops {
			out, err := safe(o, in.seq)
			if err != nil {
				continue // the edit itself failing is not this property's concern
			}
			check(in.name+"|"+o.name, out)
			if gts.Len(out) < 110 {
				continue
			}
			for _, o2 := range ops[:16] {
				out2, err := safe(o2, out)
				if err != nil {
					continue
				}
				check(in.name+"|"+o.name+"|"+o2.name, out2)
			}
		}
	}

	fmt.Printf("VB-STATS records=%d random=%d\n", count, nRandom)
	var keys []string
	for k := range vgFails {
		keys = append(keys, k)
	}
	sort.Strings(keys)
	for _, k := range keys {
		fmt.Printf("VB-FAIL\t%s\t%d\t%s\n", k, vgFails[k].n, vgFails[k].example)
	}
}
