package gts

// Bounded stand-in for the text half of property C08 (modifiers and locators as strings).
// Injected into package gts with `go test -overlay` by /verif/gvc (never written into /repo).
// The modifier and locator grammars are built from go-pars combinators and are outside the
// verified subset; here every modifier within the bound is printed and parsed back, and a
// locator string `X@M` is evaluated against X's region resized by M.
//
// Bound: the five modifier kinds with offsets -6..6 (13 + 13 + 3*169 = 533 modifiers); the
// locators `5..12@M`, `complement(5..12)@M` and `7@M` on a 24-residue sequence.

import (
	"fmt"
	"reflect"
	"sort"
	"testing"
)

func TestVerifBoundedModifierText(t *testing.T) {
	var mods []Modifier
	for p := -6; p <= 6; p++ {
		mods = append(mods, Head(p), Tail(p))
		for q := -6; q <= 6; q++ {
			mods = append(mods, HeadTail{p, q}, HeadHead{p, q}, TailTail{p, q})
		}
	}
	type fail struct {
		n  int
		ex string
	}
	fails := map[string]*fail{}
	rec := func(clause string, ex string) {
		f := fails[clause]
		if f == nil {
			f = &fail{ex: ex}
			fails[clause] = f
		}
		f.n++
	}
	seq := New(nil, nil, []byte("acgtaaccggttagctgatcgcat"))
	bases := []struct {
		text string
		loc  Location
	}{{"5..12", Range(4, 12)}, {"complement(5..12)", Complemented{Range(4, 12)}}, {"7", Point(6)}}
	nloc := 0
	for _, m := range mods {
		s := m.String()
		y, err := func() (y Modifier, err error) {
			defer func() {
				if r := recover(); r != nil {
					err = fmt.Errorf("panic: %v", r)
				}
			}()
			return AsModifier(s)
		}()
		if err != nil {
			rec("printed-modifier-parses", fmt.Sprintf("modifier=%#v text=%q err=%v", m, s, err))
			continue
		}
		if !reflect.DeepEqual(m, y) {
			rec("modifier-print-parse-roundtrip", fmt.Sprintf("modifier=%#v text=%q parsed=%#v", m, s, y))
		}
		for _, b := range bases {
			nloc++
			text := b.text + "@" + s
			want := b.loc.Region().Resize(m)
			got, err := func() (rr Regions, err error) {
				defer func() {
					if r := recover(); r != nil {
						err = fmt.Errorf("panic: %v", r)
					}
				}()
				locate, err := AsLocator(text)
				if err != nil {
					return nil, err
				}
				return locate(seq), nil
			}()
			if err != nil || len(got) != 1 || !reflect.DeepEqual(got[0], want) {
				rec("locator-is-region-resized", fmt.Sprintf("locator=%q got=%v err=%v want=[%v]", text, got, err, want))
			}
		}
	}
	fmt.Printf("VB-STATS modifiers=%d locators=%d\n", len(mods), nloc)
	var keys []string
	for k := range fails {
		keys = append(keys, k)
	}
	sort.Strings(keys)
	for _, k := range keys {
		fmt.Printf("VB-FAIL\t%s\tother\t%d\t%s\n", k, fails[k].n, fails[k].ex)
	}
}
