package gts

// Bounded stand-in for the print/parse half of property C06.  Injected into package gts with
// `go test -overlay` by /verif/gvc (never written into /repo).  Every location within the bound
// is printed with String() and parsed back with AsLocation (the real grammar built from the
// go-pars combinators, which is outside the verified subset): the value must come back.
//
// Bound: coordinates {0,1,4,9}; leaf locations = points, between-sites, every range with every
// partial-marker combination, ambiguous spans (36 leaves); the complement of each; Join and Order
// of every ordered pair of leaves, complement(join), joins with one complemented part; Join/Order
// of sampled triples and one level of nesting (a join as the first, a later, or a complemented
// operand of an order or join); sampled joins/orders/complements nested to depth 3 with 1..5 parts
// per level, built with the constructors Join, Order and Complement() (a literal
// Complemented{Complemented{x}} is not a value the library produces).  Also: the same text
// with a space after every comma, and the legacy spelling `a..b>` of a 3'-partial range, must
// parse to the same value.  Strings: every leaf spelling over the coordinates {1,3,4,6,9} in any
// order (backwards and empty ranges included), its complement, every join/order of two of them and
// sampled three-part and nested forms: no panic, and parse-then-print is a fixed point on every
// accepted string.

import (
	"fmt"
	"math/rand"
	"os"
	"reflect"
	"sort"
	"strconv"
	"strings"
	"testing"
)

func vlLeaves() []Location {
	var out []Location
	cs := []int{0, 1, 4, 9}
	ps := []Partial{Complete, Partial5, Partial3, PartialBoth}
	for i := 0; i < len(cs); i++ {
		out = append(out, Point(cs[i]), Between(cs[i]))
		for j := i + 1; j < len(cs); j++ {
			for _, p := range ps {
				out = append(out, PartialRange(cs[i], cs[j], p))
			}
			out = append(out, Ambiguous{cs[i], cs[j]})
		}
	}
	return out
}

// vlNorm re-applies the join/order reduction to a value: a three-part Join can leave parts that a
// second reduction merges (the reduction is not confluent), and the parser reduces what it reads,
// so the text of such a value parses to its re-reduced form.  The round trip is required up to
// this re-reduction.
func vlNorm(x Location) Location {
	switch v := x.(type) {
	case Joined:
		parts := make([]Location, len(v))
		for i := range v {
			parts[i] = vlNorm(v[i])
		}
		return Join(parts...)
	case Ordered:
		parts := make([]Location, len(v))
		for i := range v {
			parts[i] = vlNorm(v[i])
		}
		return Order(parts...)
	case Complemented:
		return Complemented{vlNorm(v.Location)}
	}
	return x
}

type vlFail struct {
	n       int
	example string
}

func TestVerifBoundedLocationText(t *testing.T) {
	leaves := vlLeaves()
	var locs []Location
	locs = append(locs, leaves...)
	for _, l := range leaves {
		locs = append(locs, Complemented{l})
	}
	for _, a := range leaves {
		for _, b := range leaves {
			locs = append(locs, Join(a, b), Order(a, b), Complemented{Join(a, b)}, Join(Complemented{a}, b), Join(a, Complemented{b}))
		}
	}
	seed, _ := strconv.ParseInt(os.Getenv("VERIF_SEED"), 10, 64)
	rng := rand.New(rand.NewSource(seed + 3))
	nt := 3000
	if os.Getenv("VERIF_TIER") == "thorough" {
		nt = 40000
	}
	pick := func() Location { return leaves[rng.Intn(len(leaves))] }
	for k := 0; k < nt; k++ {
		a, b, c := pick(), pick(), pick()
		locs = append(locs, Join(a, b, c), Order(a, b, c), Order(Join(a, b), c), Complemented{Order(a, b, c)})
		// a compound as a later operand of another compound
		locs = append(locs, Order(c, Join(a, b)), Join(c, Complemented{Join(a, b)}), Order(a, Complemented{Order(b, c)}), Order(a, Join(b, c), pick()))
	}
	// joins/orders/complements nested to depth 3 with 1..5 parts
	var gen func(d int) Location
	gen = func(d int) Location {
		if d == 0 || rng.Intn(3) == 0 {
			return pick()
		}
		n := 1 + rng.Intn(5)
		parts := make([]Location, n)
		for i := range parts {
			parts[i] = gen(d - 1)
		}
		switch rng.Intn(4) {
		case 0:
			return Join(parts...)
		case 1:
			return Order(parts...)
		case 2:
			return Join(parts...).Complement()
		}
		return Order(parts...).Complement()
	}
	for k := 0; k < nt; k++ {
		locs = append(locs, gen(3))
	}
	fails := map[string]*vlFail{}
	rec := func(clause string, x Location, extra string) {
		f := fails[clause]
		if f == nil {
			f = &vlFail{example: fmt.Sprintf("location=%#v text=%q %s", x, x.String(), extra)}
			fails[clause] = f
		}
		f.n++
	}
	parse := func(s string) (y Location, err error) {
		defer func() {
			if r := recover(); r != nil {
				err = fmt.Errorf("panic: %v", r)
			}
		}()
		return AsLocation(s)
	}
	for _, x := range locs {
		s := x.String()
		y, err := parse(s)
		if err != nil {
			rec("printed-location-parses", x, err.Error())
			continue
		}
		if !reflect.DeepEqual(x, y) && !reflect.DeepEqual(vlNorm(x), y) {
			rec("print-parse-roundtrip", x, fmt.Sprintf("parsed=%#v", y))
		}
		if strings.Contains(s, ",") {
			z, err := parse(strings.ReplaceAll(s, ",", ", "))
			if err != nil || (!reflect.DeepEqual(x, z) && !reflect.DeepEqual(vlNorm(x), z)) {
				rec("space-after-comma", x, fmt.Sprintf("parsed=%#v err=%v", z, err))
			}
		}
		if r, ok := x.(Ranged); ok && r.Partial.Partial3 {
			legacy := strings.Replace(s, "..>", "..", 1) + ">"
			z, err := parse(legacy)
			if err != nil || !reflect.DeepEqual(x, z) {
				rec("legacy-3prime-marker", x, fmt.Sprintf("legacy=%q parsed=%#v err=%v", legacy, z, err))
			}
		}
	}
	// strings, not values: location text with coordinates in any order (ranges written backwards or
	// empty, which the constructors refuse but the grammar accepts), alone and as operands of
	// join/order/complement.  The parser must not panic on any of them, and for every string it
	// accepts, printing the result must be a fixed point of parse-then-print.
	nums := []string{"1", "3", "4", "6", "9"}
	var leafText []string
	for _, a := range nums {
		leafText = append(leafText, a, a+"^"+nums[(len(a)+1)%len(nums)])
		for _, b := range nums {
			leafText = append(leafText, a+".."+b, "<"+a+".."+b, a+"..>"+b, "<"+a+"..>"+b, a+"."+b, a+"^"+b)
		}
	}
	texts := append([]string(nil), leafText...)
	for _, a := range leafText {
		texts = append(texts, "complement("+a+")")
	}
	for _, a := range leafText {
		for _, b := range leafText {
			texts = append(texts, "join("+a+","+b+")", "order("+a+","+b+")")
		}
	}
	for k := 0; k < nt; k++ {
		a, b, c := leafText[rng.Intn(len(leafText))], leafText[rng.Intn(len(leafText))], leafText[rng.Intn(len(leafText))]
		texts = append(texts, "join("+a+","+b+","+c+")", "complement(join("+a+","+b+"))", "join(complement("+b+"),complement("+a+"))",
			"order("+a+",join("+b+","+c+"))", "join("+a+",complement("+b+"),"+c+")")
	}
	for _, s := range texts {
		y, err := parse(s)
		if err != nil {
			if strings.HasPrefix(err.Error(), "panic:") {
				rec("parser-total", Point(0), fmt.Sprintf("AsLocation(%q): %v", s, err))
			}
			continue
		}
		var p1 string
		func() {
			defer func() {
				if r := recover(); r != nil {
					rec("parser-total", Point(0), fmt.Sprintf("printing AsLocation(%q) panicked: %v", s, r))
				}
			}()
			p1 = y.String()
		}()
		if p1 == "" {
			continue
		}
		z, err := parse(p1)
		if err != nil {
			rec("accepted-string-fixed-point", Point(0), fmt.Sprintf("%q parses and prints as %q, which does not parse: %v", s, p1, err))
			continue
		}
		if p2 := z.String(); p2 != p1 {
			rec("accepted-string-fixed-point", Point(0), fmt.Sprintf("%q prints as %q, which parses and prints as %q", s, p1, p2))
		}
	}
	fmt.Printf("VB-STATS locations=%d leaves=%d strings=%d\n", len(locs), len(leaves), len(texts))
	var keys []string
	for k := range fails {
		keys = append(keys, k)
	}
	sort.Strings(keys)
	for _, k := range keys {
		fmt.Printf("VB-FAIL\t%s\tother\t%d\t%s\n", k, fails[k].n, fails[k].example)
	}
}
