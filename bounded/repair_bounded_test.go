package gts

// Bounded stand-in for property C12 (Repair).  Injected into package gts with `go test -overlay`
// by /verif/gvc (never written into /repo).  It runs the real Repair on every feature table up
// to a stated bound and checks the safety clauses of the property plus the cut/concat/repair
// round trip.  Each failure is reported with a clause and a label; labels other than "other"
// name defect classes recorded in /verif/known_findings.json.
//
// Bound: coordinates {0,3,6,9} on a sequence of length 9; locations = every range over those
// coordinates with every partial-marker combination, the complement of each, a point, a
// between-site, two joins and an order; classes = (gene,a) (gene,b) (source,x) (gene,a+/pseudo), plus seven pairs of classes that differ
// only in how their qualifiers are spelled (a value that reads like a second qualifier, a trailing
// blank, letter case, one value against two, order), as abutting partial fragments; all tables of
// 1 and 2 features, and tables of 3 features either sampled (quick) or all (thorough).

import (
	"fmt"
	"math/rand"
	"os"
	"reflect"
	"sort"
	"strconv"
	"testing"
)

func vbLocs() []Location {
	var out []Location
	cs := []int{0, 3, 6, 9}
	ps := []Partial{Complete, Partial5, Partial3, PartialBoth}
	for i := 0; i < len(cs); i++ {
		for j := i + 1; j < len(cs); j++ {
			for _, p := range ps {
				out = append(out, PartialRange(cs[i], cs[j], p))
			}
		}
	}
	n := len(out)
	for k := 0; k < n; k++ {
		out = append(out, Complemented{out[k]})
	}
	out = append(out, Point(3), Between(6))
	out = append(out, Joined{Range(0, 3), Range(6, 9)}, Joined{Range(0, 3), PartialRange(6, 9, Partial3)}, Ordered{Range(0, 3), Range(6, 9)})
	return out
}

func vbCov(l Location, into map[int]bool) {
	switch v := l.(type) {
	case Ranged:
		for x := v.Start; x < v.End; x++ {
			into[x] = true
		}
	case Point:
		into[int(v)] = true
	case Ambiguous:
		for x := v.Start; x < v.End; x++ {
			into[x] = true
		}
	case Complemented:
		vbCov(v.Location, into)
	case Joined:
		for _, u := range v {
			vbCov(u, into)
		}
	case Ordered:
		for _, u := range v {
			vbCov(u, into)
		}
	}
}

// vbClass: the (key, qualifiers) class of a feature, spelled out element by element (independent of
// how Props happens to print).
func vbClass(f Feature) string { return fmt.Sprintf("%s:%q", f.Key, [][]string(f.Props)) }

func vbHasJoin(l Location) bool {
	switch v := l.(type) {
	case Joined:
		return true
	case Complemented:
		return vbHasJoin(v.Location)
	case Ordered:
		for _, u := range v {
			if vbHasJoin(u) {
				return true
			}
		}
	}
	return false
}

type vbFail struct {
	n       int
	example string
}

var vbFails = map[string]*vbFail{}

func vbRecord(clause, label string, tab []Feature, extra string) {
	k := clause + "\t" + label
	f := vbFails[k]
	if f == nil {
		f = &vbFail{example: fmt.Sprintf("table=%v %s", tab, extra)}
		vbFails[k] = f
	}
	f.n++
}

func vbRepair(in []Feature) (out []Feature, panicked bool, msg string) {
	defer func() {
		if r := recover(); r != nil {
			panicked = true
			msg = fmt.Sprint(r)
		}
	}()
	return Repair(in), false, ""
}

func vbCovByClass(tab []Feature) map[string]map[int]bool {
	m := map[string]map[int]bool{}
	for _, f := range tab {
		c := vbClass(f)
		if m[c] == nil {
			m[c] = map[int]bool{}
		}
		vbCov(f.Loc, m[c])
	}
	return m
}

func vbCheck(tab []Feature) {
	in := make([]Feature, len(tab))
	copy(in, tab)
	anyJoin := false
	for _, f := range tab {
		if vbHasJoin(f.Loc) {
			anyJoin = true
		}
	}
	out, panicked, msg := vbRepair(in)
	// clause: never panics
	if panicked {
		label := "other"
		if anyJoin {
			label = "table-has-join"
		}
		vbRecord("never-panics", label, tab, "panic: "+msg)
		return
	}
	// clause: the argument is not changed
	if !reflect.DeepEqual(in, tab) {
		vbRecord("argument-unchanged", "other", tab, fmt.Sprintf("argument became %v", in))
	}
	// clause: coverage of every (key, qualifiers) class is preserved
	covIn, covOut := vbCovByClass(tab), vbCovByClass(out)
	if !reflect.DeepEqual(covIn, covOut) {
		// known class: a point (or site) right after the end of a range of the same class is dropped
		label := "other"
		for _, f := range tab {
			r, ok := f.Loc.(Ranged)
			if !ok {
				continue
			}
			for _, g := range tab {
				if p, ok := g.Loc.(Point); ok && vbClass(f) == vbClass(g) && int(p) == r.End {
					ci := map[int]bool{}
					for x := range covIn[vbClass(f)] {
						ci[x] = true
					}
					delete(ci, int(p))
					if reflect.DeepEqual(ci, covOut[vbClass(f)]) {
						label = "point-after-range-end-dropped"
					}
				}
			}
		}
		vbRecord("coverage-preserved", label, tab, fmt.Sprintf("out=%v", out))
	}
	// clause: idempotent
	out2, p2, msg2 := vbRepair(out)
	if p2 {
		vbRecord("idempotent", "other", tab, "second Repair panics: "+msg2)
	} else if !reflect.DeepEqual(out, out2) {
		vbRecord("idempotent", "other", tab, fmt.Sprintf("once=%v twice=%v", out, out2))
	}
	// clause: a table in which no two features of one class touch, overlap or coincide is unchanged
	// (a stronger antecedent than the property's "do not abut 3'-partial to 5'-partial", so the
	// check demands less than the property)
	touch := false
	changedClassComplementPair := false
	for i := range tab {
		for j := range tab {
			if i != j && vbClass(tab[i]) == vbClass(tab[j]) {
				ci, cj := map[int]bool{}, map[int]bool{}
				vbCov(tab[i].Loc, ci)
				vbCov(tab[j].Loc, cj)
				for x := range ci {
					if cj[x] || cj[x+1] || cj[x-1] {
						touch = true
					}
				}
				if len(ci) == 0 || len(cj) == 0 {
					touch = true
				}
				_, c1 := tab[i].Loc.(Complemented)
				_, c2 := tab[j].Loc.(Complemented)
				if c1 && c2 {
					changedClassComplementPair = true
				}
			}
		}
	}
	if !touch && !reflect.DeepEqual(out, tab) {
		label := "other"
		if changedClassComplementPair {
			label = "same-class-complement-pair-fused"
		}
		vbRecord("unchanged-when-nothing-abuts", label, tab, fmt.Sprintf("out=%v", out))
	}
	// the same clause with the property's exact antecedent, for tables of forward ranges only:
	// nothing is merged unless two ranges of one class abut with a 3'-partial end meeting a
	// 5'-partial start (any abutting ends for source features)
	allRanged, anyAbut := true, false
	for _, f := range tab {
		if _, ok := f.Loc.(Ranged); !ok {
			allRanged = false
		}
	}
	if allRanged {
		for i := range tab {
			for j := range tab {
				if i != j && vbClass(tab[i]) == vbClass(tab[j]) {
					a, b := tab[i].Loc.(Ranged), tab[j].Loc.(Ranged)
					if a.End == b.Start && (tab[i].Key == "source" || (a.Partial.Partial3 && b.Partial.Partial5)) {
						anyAbut = true
					}
				}
			}
		}
		if !anyAbut && !reflect.DeepEqual(out, tab) {
			vbRecord("unchanged-when-nothing-abuts", "other", tab, fmt.Sprintf("(forward ranges, none abutting 3'-partial to 5'-partial) out=%v", out))
		}
	}
	// clause: features of different classes are never merged: the number of features per class
	// never grows and a class with one feature keeps exactly that feature
	cntIn, cntOut := map[string]int{}, map[string]int{}
	for _, f := range tab {
		cntIn[vbClass(f)]++
	}
	for _, f := range out {
		cntOut[vbClass(f)]++
	}
	for c, n := range cntIn {
		if cntOut[c] > n || cntOut[c] == 0 {
			vbRecord("classes-kept-apart", "other", tab, fmt.Sprintf("class %s: %d features in, %d out; out=%v", c, n, cntOut[c], out))
		}
		if n == 1 {
			for _, f := range tab {
				if vbClass(f) == c {
					found := false
					for _, g := range out {
						if reflect.DeepEqual(f, g) {
							found = true
						}
					}
					if !found {
						vbRecord("classes-kept-apart", "other", tab, fmt.Sprintf("the only feature of class %s changed; out=%v", c, out))
					}
				}
			}
		}
	}
}

// round trip: forward complete ranges with distinct classes, cut at 1..2 positions, concatenated
// in order and repaired: the table must come back (source partial markers aside).  Four table
// shapes: one source first, two sources, and the source feature in the middle / at the end of a
// table that was not built with Insert.
func vbRoundTrip() int {
	n := 0
	const L = 9
	p := []byte("acgtacgta")
	var ranges []Ranged
	for a := 0; a < L; a += 2 {
		for b := a + 1; b <= L; b += 2 {
			ranges = append(ranges, Range(a, b))
		}
	}
	keys := []string{"gene", "CDS"}
	for _, r1 := range ranges {
		for _, r2 := range ranges {
			for variant := 0; variant < 4; variant++ {
				tab := FeatureSlice{}
				if variant >= 2 {
					// a table that is not in the order Insert keeps (New takes any slice): the source
					// feature in the middle or at the end, so that after the cut its later fragment is
					// inserted before its earlier one
					src := Feature{"source", Range(0, L), Props{{"organism", "x"}}}
					f1 := Feature{keys[0], r1, Props{{"gene", "a"}}}
					f2 := Feature{keys[1], r2, Props{{"gene", "b"}}}
					if variant == 2 {
						tab = FeatureSlice{f1, src, f2}
					} else {
						tab = FeatureSlice{f1, f2, src}
					}
				} else if variant == 0 {
					tab = tab.Insert(Feature{"source", Range(0, L), Props{{"organism", "x"}}})
				} else {
					// two source features with different qualifiers (a chimeric record): the second one
					// is not the first feature of the table
					tab = tab.Insert(Feature{"source", Range(0, 4), Props{{"organism", "x"}}})
					tab = tab.Insert(Feature{"source", Range(4, L), Props{{"organism", "y"}}})
				}
				if variant < 2 {
					tab = tab.Insert(Feature{keys[0], r1, Props{{"gene", "a"}}})
					tab = tab.Insert(Feature{keys[1], r2, Props{{"gene", "b"}}})
				}
				orig := make([]Feature, len(tab))
				copy(orig, tab)
				seq := New(nil, tab, p)
				for c1 := 1; c1 < L; c1++ {
					for c2 := c1; c2 < L; c2++ {
						cuts := []int{0, c1, L}
						if c2 > c1 {
							cuts = []int{0, c1, c2, L}
						}
						n++
						func() {
							defer func() {
								if r := recover(); r != nil {
									vbRecord("restores-after-cut", "other", orig, fmt.Sprintf("cuts=%v panic: %v", cuts, r))
								}
							}()
							var pieces []Sequence
							for k := 0; k+1 < len(cuts); k++ {
								pieces = append(pieces, Slice(seq, cuts[k], cuts[k+1]))
							}
							cat := Concat(pieces...)
							got := Repair(cat.Features())
							want := orig
							ok := len(got) == len(want)
							if ok {
								gs := append([]Feature(nil), got...)
								ws := append([]Feature(nil), want...)
								sort.Sort(FeatureSlice(gs))
								sort.Sort(FeatureSlice(ws))
								for k := range gs {
									gl, wl := gs[k].Loc, ws[k].Loc
									if gs[k].Key == "source" {
										gl, wl = asComplete(gl), asComplete(wl)
									}
									if gs[k].Key != ws[k].Key || !reflect.DeepEqual(gl, wl) || !reflect.DeepEqual(gs[k].Props, ws[k].Props) {
										ok = false
									}
								}
							}
							if !ok {
								vbRecord("restores-after-cut", "other", orig, fmt.Sprintf("cuts=%v got=%v", cuts, got))
							}
						}()
					}
				}
			}
		}
	}
	return n
}

func TestVerifBoundedRepair(t *testing.T) {
	locs := vbLocs()
	type kp struct {
		key   string
		props Props
	}
	// the fourth class differs from the first only by a qualifier without a value
	classes := []kp{{"gene", Props{{"gene", "a"}}}, {"gene", Props{{"gene", "b"}}}, {"source", Props{{"organism", "x"}}}, {"gene", Props{{"gene", "a"}, {"pseudo"}}}}
	var feats []Feature
	for _, c := range classes {
		for _, l := range locs {
			feats = append(feats, Feature{c.key, l, c.props})
		}
	}
	tables := 0
	for _, a := range feats {
		vbCheck([]Feature{a})
		tables++
		for _, b := range feats {
			vbCheck([]Feature{a, b})
			tables++
		}
	}
	if os.Getenv("VERIF_TIER") == "thorough" {
		for _, a := range feats {
			for _, b := range feats {
				for _, c := range feats {
					vbCheck([]Feature{a, b, c})
					tables++
				}
			}
		}
	} else {
		seed, _ := strconv.ParseInt(os.Getenv("VERIF_SEED"), 10, 64)
		rng := rand.New(rand.NewSource(seed + 1))
		for k := 0; k < 60000; k++ {
			vbCheck([]Feature{feats[rng.Intn(len(feats))], feats[rng.Intn(len(feats))], feats[rng.Intn(len(feats))]})
			tables++
		}
	}
	// classes that differ only in how their qualifiers are spelled: two abutting fragments with a
	// 3'-partial end meeting a 5'-partial start, one of each class, must stay apart
	pairs := [][2]Props{
		{{{"note", "similar to /gene=recA"}}, {{"note", "similar to"}, {"gene", "recA"}}},
		{{{"note", "x"}}, {{"note", "x "}}},
		{{{"note", "x"}}, {{"Note", "x"}}},
		{{{"note", "x;y"}}, {{"note", "x"}, {"note", "y"}}},
		{{{"note", "x] [gene y"}}, {{"note", "x"}, {"gene", "y"}}},
		{{{"gene", "a"}}, {{"gene", "a"}, {"note", ""}}},
		{{{"gene", "a"}, {"note", "b"}}, {{"note", "b"}, {"gene", "a"}}},
	}
	for _, pq := range pairs {
		for _, key := range []string{"gene", "misc_feature"} {
			a := Feature{key, PartialRange(2, 5, Partial3), pq[0]}
			b := Feature{key, PartialRange(5, 9, Partial5), pq[1]}
			vbCheck([]Feature{a, b})
			vbCheck([]Feature{Feature{key, PartialRange(2, 5, Partial3), pq[1]}, Feature{key, PartialRange(5, 9, Partial5), pq[0]}})
			vbCheck([]Feature{{"source", Range(0, 9), Props{{"organism", "x"}}}, a, b})
			tables += 3
		}
	}
	trips := vbRoundTrip()
	fmt.Printf("VB-STATS tables=%d roundtrips=%d features=%d\n", tables, trips, len(feats))
	var keys []string
	for k := range vbFails {
		keys = append(keys, k)
	}
	sort.Strings(keys)
	for _, k := range keys {
		fmt.Printf("VB-FAIL\t%s\t%d\t%s\n", k, vbFails[k].n, vbFails[k].example)
	}
}
