package seqio

// Bounded stand-in for ONE clause of property C16: "the reader's fast validation path and its
// slow line-by-line path accept the same blocks and produce the same residues".  Everything else
// in C16 is proved (layout arithmetic, NewOrigin, Origin.Bytes/Len, both validators accept only
// layout blocks).  What the contracts do not state is completeness of the line-by-line path (a
// well-formed block is accepted): its lines come from pars.Line, whose tokens are unconstrained in
// the model.  Injected into package seqio with `go test -overlay` by /verif/gvc.
//
// Bound: every length 0..400 (quick) / 0..3000 (thorough) - all remainders modulo 10 and 60 and
// the index-width changes at 10, 100, 1000 - residues cycling through the printable bytes
// 0x21..0x7e from two offsets; each block laid out by NewOrigin is read by the ORIGIN field
// reader (makeGenbankOriginParser) from an io.Reader (1) as it is (fast path), (2) with CRLF line
// ends, (3) with every line padded by one blank, (4) with CRLF and padding (2-4: slow path); each
// must be accepted and decode to the same residues.  For lengths <= 130 every single-byte
// corruption of the LF block that the layout forbids (an index digit changed, a separating blank
// replaced, a residue replaced by a blank, the last residue dropped) must be rejected on both
// paths (LF and CRLF form).

import (
	"bytes"
	"fmt"
	"os"
	"sort"
	"strings"
	"testing"

	"github.com/go-pars/pars"
)

func voResidues(n, off int) []byte {
	p := make([]byte, n)
	for i := range p {
		p[i] = byte(0x21 + (i+off)%94)
	}
	return p
}

// voRead runs the ORIGIN field reader on "ORIGIN      <eol>" + block and returns the residues.
func voRead(block string, eol string, length int) (res []byte, err error) {
	defer func() {
		if r := recover(); r != nil {
			err = fmt.Errorf("panic: %v", r)
		}
	}()
	gb := &GenBank{Origin: NewOrigin(nil)}
	parser := makeGenbankOriginParser(length)(gb, 12)
	state := pars.NewState(strings.NewReader("ORIGIN      " + eol + block + "//" + eol))
	result := &pars.Result{}
	if err := parser(state, result); err != nil {
		return nil, err
	}
	if gb.Origin.Len() != length {
		return nil, fmt.Errorf("Len() = %d after reading a block of %d residues", gb.Origin.Len(), length)
	}
	return append([]byte(nil), gb.Origin.Bytes()...), nil
}

func TestVerifBoundedOrigin(t *testing.T) {
	type fail struct {
		n       int
		example string
	}
	fails := map[string]*fail{}
	rec := func(clause, example string) {
		f := fails[clause]
		if f == nil {
			f = &fail{example: example}
			fails[clause] = f
		}
		f.n++
	}
	maxN := 400
	if os.Getenv("VERIF_TIER") == "thorough" {
		maxN = 3000
	}
	blocks := 0
	for n := 0; n <= maxN; n++ {
		for _, off := range []int{0, 47} {
			want := voResidues(n, off)
			lf := NewOrigin(want).String()
			forms := []struct {
				clause, text, eol string
			}{
				{"valid-block-accepted-lf", lf, "\n"},
				{"valid-block-accepted-crlf", strings.ReplaceAll(lf, "\n", "\r\n"), "\r\n"},
				{"valid-block-accepted-padded", strings.ReplaceAll(lf, "\n", " \n"), "\n"},
				{"valid-block-accepted-crlf-padded", strings.ReplaceAll(lf, "\n", " \r\n"), "\r\n"},
			}
			for _, f := range forms {
				blocks++
				got, err := voRead(f.text, f.eol, n)
				if err != nil {
					rec(f.clause, fmt.Sprintf("length %d: rejected: %v", n, err))
				} else if !bytes.Equal(got, want) {
					rec(f.clause, fmt.Sprintf("length %d: residues differ (read %d)", n, len(got)))
				}
			}
			if n == 0 || n > 130 || off != 0 {
				continue
			}
			// corruptions the layout forbids
			b := []byte(lf)
			for pos := range b {
				c := b[pos]
				var repl []byte
				switch {
				case c == '\n':
					continue
				case pos%76 < 9 && c >= '0' && c <= '9': // index digit
					repl = []byte{'0' + (c-'0'+1)%10}
				case pos%76 < 9: // index padding
					repl = []byte{'x'}
				case c == ' ': // separating blank
					repl = []byte{'x'}
				default: // residue
					repl = []byte{' '}
				}
				for _, r := range repl {
					bad := append([]byte(nil), b...)
					bad[pos] = r
					for _, eol := range []string{"\n", "\r\n"} {
						blocks++
						text := string(bad)
						if eol == "\r\n" {
							text = strings.ReplaceAll(text, "\n", "\r\n")
						}
						if got, err := voRead(text, eol, n); err == nil {
							rec("corrupted-block-rejected", fmt.Sprintf("length %d, byte %d %q->%q, eol %q: accepted (%d residues)", n, pos, c, r, eol, len(got)))
						}
					}
				}
			}
			// the last residue dropped (declared length unchanged)
			if i := strings.LastIndex(lf[:len(lf)-1], "\n"); len(lf) > 12 {
				short := lf[:len(lf)-2] + "\n"
				_ = i
				for _, eol := range []string{"\n", "\r\n"} {
					blocks++
					text := short
					if eol == "\r\n" {
						text = strings.ReplaceAll(text, "\n", "\r\n")
					}
					if _, err := voRead(text, eol, n); err == nil {
						rec("corrupted-block-rejected", fmt.Sprintf("length %d: block with the last residue missing accepted (eol %q)", n, eol))
					}
				}
			}
		}
	}
	fmt.Printf("VB-STATS blocks=%d max-length=%d\n", blocks, maxN)
	var keys []string
	for k := range fails {
		keys = append(keys, k)
	}
	sort.Strings(keys)
	for _, k := range keys {
		fmt.Printf("VB-FAIL\t%s\tother\t%d\t%s\n", k, fails[k].n, fails[k].example)
	}
}
