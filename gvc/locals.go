package main

// Tolerance for renamed locals.  Contracts live outside the repository's files and name locals
// (loop invariants, call-site obligations).  With -update-claims the ordered list of the locals
// of every function under contract is recorded in claims/locals.json.  At check time, a local
// whose recorded name no longer occurs in the function is bound to the local that now stands at
// the same declaration position, provided the new name did not occur before and the type is the
// same.  Reordered declarations (same set of names) and added locals never trigger the mapping.
// A wrong mapping cannot hide a violation: the clauses are still checked against the real code.

import (
	"encoding/json"
	"go/ast"
	"go/types"
	"os"
	"path/filepath"
	"sort"
)

type localEntry struct {
	Name string `json:"n"`
	Type string `json:"t"`
}

func localsOf(t *Target) []localEntry {
	var body ast.Node
	if t.lit != nil {
		body = t.lit
	} else if t.decl != nil && t.decl.Body != nil {
		body = t.decl.Body
	}
	if body == nil || t.pkg == nil {
		return nil
	}
	type pv struct {
		pos int
		e   localEntry
	}
	var l []pv
	ast.Inspect(body, func(n ast.Node) bool {
		id, ok := n.(*ast.Ident)
		if !ok || id.Name == "_" {
			return true
		}
		if o, ok := t.pkg.TypesInfo.Defs[id].(*types.Var); ok && o != nil && !o.IsField() {
			l = append(l, pv{int(id.Pos()), localEntry{id.Name, types.TypeString(o.Type(), func(p *types.Package) string { return p.Name() })}})
		}
		return true
	})
	// implicit objects of type switches (`switch v := x.(type)`) are not renamable one by one; skipped
	sort.Slice(l, func(i, j int) bool { return l[i].pos < l[j].pos })
	var out []localEntry
	for _, x := range l {
		out = append(out, x.e)
	}
	return out
}

func localsFile(verif string) string { return filepath.Join(verif, "claims", "locals.json") }

func loadLocals(verif string) map[string][]localEntry {
	m := map[string][]localEntry{}
	if b, err := os.ReadFile(localsFile(verif)); err == nil {
		json.Unmarshal(b, &m)
	}
	return m
}

func saveLocals(verif string, m map[string][]localEntry) {
	b, _ := json.MarshalIndent(m, "", " ")
	os.WriteFile(localsFile(verif), append(b, '\n'), 0o644)
}

// renameMap: recorded name -> current name, for recorded names that vanished.
func renameMap(base, cur []localEntry) map[string]string {
	if len(base) == 0 || len(cur) == 0 {
		return nil
	}
	inBase, inCur := map[string]bool{}, map[string]bool{}
	for _, e := range base {
		inBase[e.Name] = true
	}
	for _, e := range cur {
		inCur[e.Name] = true
	}
	var vanished, appeared []string
	for n := range inBase {
		if !inCur[n] {
			vanished = append(vanished, n)
		}
	}
	for n := range inCur {
		if !inBase[n] {
			appeared = append(appeared, n)
		}
	}
	if len(vanished) == 0 || len(vanished) != len(appeared) {
		return nil
	}
	m := map[string]string{}
	if len(base) == len(cur) {
		for i := range base {
			b, c := base[i], cur[i]
			if !inCur[b.Name] {
				if inBase[c.Name] || b.Type != c.Type {
					return nil
				}
				if prev, ok := m[b.Name]; ok && prev != c.Name {
					return nil
				}
				m[b.Name] = c.Name
			} else if b.Name != c.Name {
				return nil // declarations were also moved: positions are not comparable
			}
		}
		return m
	}
	if len(vanished) == 1 {
		// one rename next to added or removed locals: accept when the type identifies it
		var bt, ct string
		for _, e := range base {
			if e.Name == vanished[0] {
				bt = e.Type
				break
			}
		}
		for _, e := range cur {
			if e.Name == appeared[0] {
				ct = e.Type
				break
			}
		}
		if bt == ct {
			return map[string]string{vanished[0]: appeared[0]}
		}
	}
	return nil
}

func rangeKeysFile(verif string) string { return filepath.Join(verif, "claims", "rangekeys.json") }

func loadRangeKeys(verif string) map[string]map[int]string {
	m := map[string]map[int]string{}
	if b, err := os.ReadFile(rangeKeysFile(verif)); err == nil {
		json.Unmarshal(b, &m)
	}
	return m
}

func saveRangeKeys(verif string, m map[string]map[int]string) {
	b, _ := json.MarshalIndent(m, "", " ")
	os.WriteFile(rangeKeysFile(verif), append(b, '\n'), 0o644)
}
