package main

// Tolerance for renamed locals.  Contracts live outside the repository's files and name locals
// (loop invariants, call-site obligations).  With -update-claims the ordered list of the locals
// of every function under contract is recorded in claims/locals.json.  At check time, a local
// whose recorded name no longer occurs in the function is bound to the local that now stands at
// the same declaration position, provided the new name did not occur before and the type is the
// same.  Reordered declarations (same set of names) and added locals never trigger the mapping.
// A wrong mapping cannot hide a violation: the clauses are still checked against the real code.

import (
	"encoding/json"
	"fmt"
	"go/ast"
	"go/token"
	"go/types"
	"os"
	"path/filepath"
	"regexp"
	"sort"
	"strings"
)

type localEntry struct {
	Name string `json:"n"`
	Type string `json:"t"`
	// Def: how the local is defined - the text of its initialiser (or of the ranged expression)
	// with the names of the function's locals blanked, so that it survives renames
	Def string `json:"d,omitempty"`
	// Uses: the simple statements and conditions the local occurs in (names of locals blanked,
	// sorted, at most 16): tells apart locals of one type that are defined alike (two ints
	// starting at 0)
	Uses []string `json:"u,omitempty"`
}

func localsOf(t *Target) []localEntry {
	var body ast.Node
	if t.lit != nil {
		body = t.lit
	} else if t.decl != nil && t.decl.Body != nil {
		body = t.decl.Body
	}
	if body == nil || t.pkg == nil {
		return nil
	}
	type pv struct {
		pos int
		e   localEntry
	}
	var l []pv
	defs := map[*ast.Ident]ast.Expr{}
	kind := map[*ast.Ident]string{}
	ast.Inspect(body, func(n ast.Node) bool {
		switch x := n.(type) {
		case *ast.AssignStmt:
			if x.Tok == token.DEFINE {
				for i, lhs := range x.Lhs {
					if id, ok := lhs.(*ast.Ident); ok {
						if len(x.Rhs) == len(x.Lhs) {
							defs[id] = x.Rhs[i]
						} else if len(x.Rhs) == 1 {
							defs[id] = x.Rhs[0]
							kind[id] = fmt.Sprintf("#%d ", i)
						}
					}
				}
			}
		case *ast.ValueSpec:
			for i, id := range x.Names {
				if len(x.Values) == len(x.Names) {
					defs[id] = x.Values[i]
				} else if len(x.Values) == 1 {
					defs[id] = x.Values[0]
					kind[id] = fmt.Sprintf("#%d ", i)
				}
			}
		case *ast.RangeStmt:
			if id, ok := x.Key.(*ast.Ident); ok && x.Tok == token.DEFINE {
				defs[id] = x.X
				kind[id] = "range-key "
			}
			if id, ok := x.Value.(*ast.Ident); ok && x.Tok == token.DEFINE {
				defs[id] = x.X
				kind[id] = "range-value "
			}
		}
		return true
	})
	names := map[string]bool{}
	ast.Inspect(body, func(n ast.Node) bool {
		id, ok := n.(*ast.Ident)
		if !ok || id.Name == "_" {
			return true
		}
		if o, ok := t.pkg.TypesInfo.Defs[id].(*types.Var); ok && o != nil && !o.IsField() {
			names[id.Name] = true
			l = append(l, pv{int(id.Pos()), localEntry{Name: id.Name, Type: types.TypeString(o.Type(), func(p *types.Package) string { return p.Name() })}})
			if e, ok := defs[id]; ok {
				l[len(l)-1].e.Def = kind[id] + nodeStr(e)
			}
		}
		return true
	})
	uses := map[types.Object]map[string]bool{}
	note := func(n ast.Node, text string) {
		if len(text) > 100 {
			text = text[:100]
		}
		text = blankNames(text, names)
		ast.Inspect(n, func(m ast.Node) bool {
			if _, ok := m.(*ast.FuncLit); ok {
				return false
			}
			if id, ok := m.(*ast.Ident); ok {
				o := t.pkg.TypesInfo.ObjectOf(id)
				if v, ok := o.(*types.Var); ok && !v.IsField() && names[id.Name] {
					if uses[o] == nil {
						uses[o] = map[string]bool{}
					}
					uses[o][text] = true
				}
			}
			return true
		})
	}
	ast.Inspect(body, func(n ast.Node) bool {
		switch x := n.(type) {
		case *ast.AssignStmt, *ast.ExprStmt, *ast.IncDecStmt, *ast.ReturnStmt, *ast.DeclStmt:
			note(n, nodeStr(n))
		case *ast.IfStmt:
			if x.Cond != nil {
				note(x.Cond, "if "+nodeStr(x.Cond))
			}
		case *ast.ForStmt:
			if x.Cond != nil {
				note(x.Cond, "for "+nodeStr(x.Cond))
			}
		case *ast.RangeStmt:
			note(x.X, "range "+nodeStr(x.X))
		case *ast.SwitchStmt:
			if x.Tag != nil {
				note(x.Tag, "switch "+nodeStr(x.Tag))
			}
		}
		return true
	})
	objAt := map[int]types.Object{}
	ast.Inspect(body, func(n ast.Node) bool {
		if id, ok := n.(*ast.Ident); ok {
			if o, ok := t.pkg.TypesInfo.Defs[id].(*types.Var); ok && o != nil && !o.IsField() {
				objAt[int(id.Pos())] = o
			}
		}
		return true
	})
	for i := range l {
		if l[i].e.Def != "" {
			l[i].e.Def = blankNames(l[i].e.Def, names)
		}
		if o := objAt[l[i].pos]; o != nil {
			var u []string
			for k := range uses[o] {
				u = append(u, k)
			}
			sort.Strings(u)
			if len(u) > 16 {
				u = u[:16]
			}
			l[i].e.Uses = u
		}
	}
	// implicit objects of type switches (`switch v := x.(type)`) are not renamable one by one; skipped
	sort.Slice(l, func(i, j int) bool { return l[i].pos < l[j].pos })
	var out []localEntry
	for _, x := range l {
		out = append(out, x.e)
	}
	return out
}

func localsFile(verif string) string { return filepath.Join(verif, "claims", "locals.json") }

func loadLocals(verif string) map[string][]localEntry {
	m := map[string][]localEntry{}
	if b, err := os.ReadFile(localsFile(verif)); err == nil {
		json.Unmarshal(b, &m)
	}
	return m
}

func saveLocals(verif string, m map[string][]localEntry) {
	b, _ := json.MarshalIndent(m, "", " ")
	os.WriteFile(localsFile(verif), append(b, '\n'), 0o644)
}

// renameMap: recorded name -> current name, for recorded names that vanished.  The two
// declaration lists are aligned (longest common subsequence over name+type, so that added and
// removed locals do not shift the positions); a vanished name is mapped to an appeared name of
// the same type that sits in the same gap of the alignment, in order.
func renameMap(base, cur []localEntry) map[string]string {
	if len(base) == 0 || len(cur) == 0 {
		return nil
	}
	inBase, inCur := map[string]bool{}, map[string]bool{}
	for _, e := range base {
		inBase[e.Name] = true
	}
	for _, e := range cur {
		inCur[e.Name] = true
	}
	nv := 0
	for n := range inBase {
		if !inCur[n] {
			nv++
		}
	}
	if nv == 0 {
		return nil
	}
	// LCS over identical (name, type) entries
	n, m := len(base), len(cur)
	if n*m > 4000000 {
		return nil
	}
	l := make([][]int, n+1)
	for i := range l {
		l[i] = make([]int, m+1)
	}
	for i := n - 1; i >= 0; i-- {
		for k := m - 1; k >= 0; k-- {
			if sameEntry(base[i], cur[k]) {
				l[i][k] = l[i+1][k+1] + 1
			} else if l[i+1][k] >= l[i][k+1] {
				l[i][k] = l[i+1][k]
			} else {
				l[i][k] = l[i][k+1]
			}
		}
	}
	out := map[string]string{}
	bad := map[string]bool{}
	taken := map[string]bool{}
	// first pass: a vanished local and an appeared local of the same type that are defined by the
	// same expression (names of locals blanked) are the same local, wherever they stand
	for _, b := range base {
		if inCur[b.Name] || b.Def == "" {
			continue
		}
		if _, done := out[b.Name]; done {
			continue
		}
		var cand []string
		seen := map[string]bool{}
		for _, c := range cur {
			if !inBase[c.Name] && !taken[c.Name] && !seen[c.Name] && c.Type == b.Type && c.Def == b.Def {
				cand = append(cand, c.Name)
				seen[c.Name] = true
			}
		}
		nb := 0
		seenB := map[string]bool{}
		for _, b2 := range base {
			if !inCur[b2.Name] && !seenB[b2.Name] && b2.Type == b.Type && b2.Def == b.Def {
				nb++
				seenB[b2.Name] = true
			}
		}
		if len(cand) == 1 && nb == 1 {
			out[b.Name] = cand[0]
			taken[cand[0]] = true
		} else if len(cand) > 1 {
			// several locals of this type are defined alike: the one that is used alike
			best, bestSim, second := "", 0.0, 0.0
			for _, cn := range cand {
				for _, c := range cur {
					if c.Name == cn {
						if sim := usageSim(b.Uses, c.Uses); sim > bestSim {
							best, second, bestSim = cn, bestSim, sim
						} else if sim > second {
							second = sim
						}
						break
					}
				}
			}
			if best != "" && bestSim > 0.3 && bestSim > second {
				out[b.Name] = best
				taken[best] = true
			}
		}
	}
	flush := func(bs, cs []localEntry) {
		// within one gap: vanished entries of base against appeared entries of cur, matched in
		// order per type
		used := make([]bool, len(cs))
		for _, b := range bs {
			if inCur[b.Name] {
				continue
			}
			if _, done := out[b.Name]; done && !bad[b.Name] {
				continue
			}
			for k, c := range cs {
				if used[k] || inBase[c.Name] || taken[c.Name] || c.Type != b.Type {
					continue
				}
				used[k] = true
				if prev, ok := out[b.Name]; ok && prev != c.Name {
					bad[b.Name] = true
				}
				out[b.Name] = c.Name
				break
			}
		}
	}
	i, k := 0, 0
	var gb, gc []localEntry
	for i < n && k < m {
		switch {
		case sameEntry(base[i], cur[k]):
			flush(gb, gc)
			gb, gc = nil, nil
			i++
			k++
		case l[i+1][k] >= l[i][k+1]:
			gb = append(gb, base[i])
			i++
		default:
			gc = append(gc, cur[k])
			k++
		}
	}
	gb = append(gb, base[i:]...)
	gc = append(gc, cur[k:]...)
	flush(gb, gc)
	for b := range bad {
		delete(out, b)
	}
	// a vanished name that found no partner (a range value that was dropped, say) stays unbound:
	// a clause that names it will not bind, the others are unaffected
	if len(out) == 0 {
		return nil
	}
	return out
}

func rangeKeysFile(verif string) string { return filepath.Join(verif, "claims", "rangekeys.json") }

func loadRangeKeys(verif string) map[string]map[int]string {
	m := map[string]map[int]string{}
	if b, err := os.ReadFile(rangeKeysFile(verif)); err == nil {
		json.Unmarshal(b, &m)
	}
	return m
}

func saveRangeKeys(verif string, m map[string]map[int]string) {
	b, _ := json.MarshalIndent(m, "", " ")
	os.WriteFile(rangeKeysFile(verif), append(b, '\n'), 0o644)
}

var identRe = regexp.MustCompile(`[A-Za-z_][A-Za-z0-9_]*`)

// blankNames replaces every identifier of s that names a local of the function by "_".
func blankNames(s string, names map[string]bool) string {
	return identRe.ReplaceAllStringFunc(s, func(w string) string {
		if names[w] {
			return "_"
		}
		return w
	})
}

// Loop ordinals.  Contracts name the N-th loop of a function.  With -update-claims the loops of
// every function under contract are recorded (claims/loops.json) by a fingerprint: the loop
// header with the names of locals blanked.  At check time the current loops are aligned with the
// recorded ones (longest common subsequence over fingerprints), so that a loop added or removed
// elsewhere in the function does not shift the clauses of the others.

func loopsOf(t *Target) []string {
	var body ast.Node
	if t.lit != nil {
		body = t.lit.Body
	} else if t.decl != nil && t.decl.Body != nil {
		body = t.decl.Body
	}
	if body == nil || t.pkg == nil {
		return nil
	}
	names := map[string]bool{}
	for _, l := range localsOf(t) {
		names[l.Name] = true
	}
	var out []string
	ast.Inspect(body, func(n ast.Node) bool {
		switch x := n.(type) {
		case *ast.FuncLit:
			return false
		case *ast.ForStmt:
			fp := "for "
			if x.Init != nil {
				fp += nodeStr(x.Init)
			}
			fp += "; "
			if x.Cond != nil {
				fp += nodeStr(x.Cond)
			}
			fp += "; "
			if x.Post != nil {
				fp += nodeStr(x.Post)
			}
			if x.Body != nil && len(x.Body.List) > 0 {
				first := nodeStr(x.Body.List[0])
				if len(first) > 80 {
					first = first[:80]
				}
				fp += " | " + first
			}
			out = append(out, blankNames(fp, names))
		case *ast.RangeStmt:
			fp := "range " + nodeStr(x.X) + " |"
			if x.Key != nil {
				fp += " key"
			}
			if x.Value != nil {
				fp += " value"
			}
			if x.Body != nil && len(x.Body.List) > 0 {
				first := nodeStr(x.Body.List[0])
				if len(first) > 80 {
					first = first[:80]
				}
				fp += " | " + first
			}
			out = append(out, blankNames(fp, names))
		}
		return true
	})
	return out
}

func loopsFile(verif string) string { return filepath.Join(verif, "claims", "loops.json") }

func loadLoops(verif string) map[string][]string {
	m := map[string][]string{}
	if b, err := os.ReadFile(loopsFile(verif)); err == nil {
		json.Unmarshal(b, &m)
	}
	return m
}

func saveLoops(verif string, m map[string][]string) {
	b, _ := json.MarshalIndent(m, "", " ")
	os.WriteFile(loopsFile(verif), append(b, '\n'), 0o644)
}

// loopMap: current ordinal (1-based) -> recorded ordinal; current loops without a partner get
// an ordinal above 1000 (no clauses apply to them).  nil means identity.
func loopMap(base, cur []string) map[int]int {
	if len(base) == 0 {
		return nil
	}
	same := len(base) == len(cur)
	if same {
		for i := range base {
			if base[i] != cur[i] {
				same = false
			}
		}
	}
	if same || len(base) == len(cur) {
		// same number of loops: the positions are taken as they are (a loop whose header was
		// rewritten keeps its clauses)
		return nil
	}
	n, m := len(base), len(cur)
	l := make([][]int, n+1)
	for i := range l {
		l[i] = make([]int, m+1)
	}
	for i := n - 1; i >= 0; i-- {
		for k := m - 1; k >= 0; k-- {
			if base[i] == cur[k] {
				l[i][k] = l[i+1][k+1] + 1
			} else if l[i+1][k] >= l[i][k+1] {
				l[i][k] = l[i+1][k]
			} else {
				l[i][k] = l[i][k+1]
			}
		}
	}
	out := map[int]int{}
	i, k := 0, 0
	for i < n && k < m {
		switch {
		case base[i] == cur[k]:
			out[k+1] = i + 1
			i++
			k++
		case l[i+1][k] >= l[i][k+1]:
			i++
		default:
			k++
		}
	}
	// second pass: a recorded entry that found no exact partner (its body or header was edited) is
	// matched to an unmatched current entry with the same weak fingerprint (the part before the
	// first " |": what is ranged over, resp. the signature) that lies between the partners of its
	// matched neighbours
	weak := func(fp string) string {
		if i := strings.Index(fp, " |"); i >= 0 {
			return fp[:i]
		}
		return fp
	}
	curOf := map[int]int{} // recorded ordinal -> current ordinal
	for c, b := range out {
		curOf[b] = c
	}
	// walk the gaps between exactly matched neighbours; inside a gap, the unmatched recorded entries
	// of one weak fingerprint are mapped, in order, onto the last as many unmatched current entries
	// of that fingerprint (additions usually come first)
	b := 1
	for b <= n {
		if _, ok := curOf[b]; ok {
			b++
			continue
		}
		bEnd := b
		for bEnd <= n {
			if _, ok := curOf[bEnd]; ok {
				break
			}
			bEnd++
		}
		lo, hi := 0, m+1
		if b > 1 {
			lo = curOf[b-1]
		}
		if bEnd <= n {
			hi = curOf[bEnd]
		}
		byWeakB := map[string][]int{}
		var order []string
		for bb := b; bb < bEnd; bb++ {
			w := weak(base[bb-1])
			if _, seen := byWeakB[w]; !seen {
				order = append(order, w)
			}
			byWeakB[w] = append(byWeakB[w], bb)
		}
		for _, w := range order {
			var cands []int
			for c := lo + 1; c < hi; c++ {
				if _, taken := out[c]; !taken && weak(cur[c-1]) == w {
					cands = append(cands, c)
				}
			}
			bs := byWeakB[w]
			if len(cands) < len(bs) {
				continue
			}
			off := len(cands) - len(bs)
			for i, bb := range bs {
				out[cands[off+i]] = bb
				curOf[bb] = cands[off+i]
			}
		}
		b = bEnd
	}
	for k := 1; k <= m; k++ {
		if _, ok := out[k]; !ok {
			out[k] = 1000 + k
		}
	}
	return out
}

func litsFile(verif string) string { return filepath.Join(verif, "claims", "lits.json") }

func loadLits(verif string) map[string][]string {
	m := map[string][]string{}
	if b, err := os.ReadFile(litsFile(verif)); err == nil {
		json.Unmarshal(b, &m)
	}
	return m
}

func saveLits(verif string, m map[string][]string) {
	b, _ := json.MarshalIndent(m, "", " ")
	os.WriteFile(litsFile(verif), append(b, '\n'), 0o644)
}

func sameEntry(a, b localEntry) bool { return a.Name == b.Name && a.Type == b.Type && a.Def == b.Def }

// usageSim: Jaccard similarity of two sorted lists of statement shapes.
func usageSim(a, b []string) float64 {
	if len(a) == 0 || len(b) == 0 {
		return 0
	}
	in := map[string]bool{}
	for _, x := range a {
		in[x] = true
	}
	n := 0
	for _, x := range b {
		if in[x] {
			n++
		}
	}
	return float64(n) / float64(len(a)+len(b)-n)
}
