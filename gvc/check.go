package main

// "gvc check": decide one property — select its contracts, close over dependencies,
// discharge, triage failures (known findings, replay), print verdict, write evidence.

import (
	"encoding/json"
	"flag"
	"fmt"
	"os"
	"path/filepath"
	"regexp"
	"sort"
	"strconv"
	"strings"
	"time"
)

type Evidence struct {
	PropertyID  string                 `json:"property_id"`
	Tier        string                 `json:"tier"`
	Seed        int                    `json:"seed"`
	Level       string                 `json:"level"`
	Coverage    map[string]interface{} `json:"coverage"`
	Assumptions []string               `json:"assumptions"`
	WallS       float64                `json:"wall_s"`
	Violations  int                    `json:"violations"`
}

func hasProp(fs *FuncSpec, id string) bool {
	for _, p := range fs.Props {
		if p == id {
			return true
		}
	}
	return false
}

func cmdCheck(args []string) int {
	fl := flag.NewFlagSet("check", flag.ExitOnError)
	repo := fl.String("repo", "/repo", "repository")
	prop := fl.String("prop", "", "property id")
	tier := fl.String("tier", "quick", "quick|thorough")
	verif := fl.String("verif", "/verif", "verif directory")
	updateClaims := fl.Bool("update-claims", false, "rewrite claims/<id>.txt from this run")
	verbose := fl.Bool("v", false, "verbose")
	fl.Parse(args)
	t0 := time.Now()
	seed, _ := strconv.Atoi(os.Getenv("VERIF_SEED"))
	if t := os.Getenv("VERIF_TIER"); t == "quick" || t == "thorough" {
		*tier = t
	}
	id := *prop
	replayDir := filepath.Join(*verif, "replays", id)
	os.RemoveAll(replayDir)
	ev := &Evidence{PropertyID: id, Tier: *tier, Seed: seed, Level: "proof", Coverage: map[string]interface{}{}}
	evFile := filepath.Join(*verif, "evidence", id+".json")
	os.MkdirAll(filepath.Dir(evFile), 0o755)
	writeEv := func() {
		ev.WallS = time.Since(t0).Seconds()
		b, _ := json.MarshalIndent(ev, "", " ")
		os.WriteFile(evFile, append(b, '\n'), 0o644)
	}
	toolFailure := func(msg string) int {
		// the machinery could not run: report as a violation of the ability to decide
		os.MkdirAll(replayDir, 0o755)
		rp := filepath.Join(replayDir, "tool-failure.json")
		b, _ := json.MarshalIndent(map[string]interface{}{"property": id, "obligation": "gvc/load", "error": msg}, "", " ")
		os.WriteFile(rp, b, 0o644)
		fmt.Printf("VIOLATION property=%s replay=%s obligation=gvc/load %s no-failing-input-found\n", id, rp, strings.ReplaceAll(msg, "\n", " "))
		ev.Violations = 1
		ev.Coverage["obligations"] = 1
		ev.Coverage["discharged"] = 0
		ev.Coverage["checker_cmd"] = strings.Join(os.Args, " ")
		ev.Coverage["trusted_base"] = []string{}
		ev.Coverage["explanation"] = "the verifier could not load or translate the repository: " + msg
		writeEv()
		return 1
	}
	if !*updateClaims {
		litBaseline = loadLits(*verif)
	}
	eng, err := loadEngine(*repo)
	if err != nil {
		return toolFailure(err.Error())
	}
	if *tier == "thorough" {
		eng.timeoutS = 60
	}
	if !*updateClaims {
		eng.localsBase = loadLocals(*verif)
		eng.rangeKeyBase = loadRangeKeys(*verif)
		eng.loopsBase = loadLoops(*verif)
	}
	for _, u := range eng.unbound {
		// a contract that matches no function of the current tree: only the properties it carries
		// are undecided
		if u.spec != nil && hasProp(u.spec, *prop) {
			return toolFailure(u.msg)
		}
	}
	kfs := loadKnownFindings(filepath.Join(*verif, "known_findings.json"))

	// select targets
	var work []string
	for k, t := range eng.targets {
		if t.spec != nil && hasProp(t.spec, id) {
			work = append(work, k)
		}
	}
	sort.Strings(work)
	var extraObls []*Obligation
	if id == "C14" {
		extraObls = eng.checkC14()
		ev.Level = "other"
	}
	var boundedInfo map[string]interface{}
	if id == "C12" {
		var bo []*Obligation
		bo, boundedInfo = eng.runBounded(repairHarness, *repo, *verif, *tier, seed)
		extraObls = append(extraObls, bo...)
	}
	if id == "C11" {
		// Repair is outside the verified subset: its purity is decided by the bounded enumeration
		// of /verif/bounded/repair_bounded_test.go (clause argument-unchanged), labelled bounded
		bo, info := eng.runBounded(repairHarness, *repo, *verif, *tier, seed)
		boundedInfo = info
		for _, o := range bo {
			if strings.HasSuffix(o.Name, "/bounded:argument-unchanged") || strings.HasSuffix(o.Name, "/bounded:harness-ran") {
				o.Props = []string{"C11"}
				extraObls = append(extraObls, o)
			}
		}
	}
	if id == "C15" {
		var bo []*Obligation
		bo, boundedInfo = eng.runBounded(cliHarness, *repo, *verif, *tier, seed)
		extraObls = append(extraObls, bo...)
	}
	if id == "C06" {
		var bo []*Obligation
		bo, boundedInfo = eng.runBounded(locTextHarness, *repo, *verif, *tier, seed)
		extraObls = append(extraObls, bo...)
	}
	if id == "C08" {
		var bo []*Obligation
		bo, boundedInfo = eng.runBounded(modTextHarness, *repo, *verif, *tier, seed)
		extraObls = append(extraObls, bo...)
	}
	if id == "C07" {
		// one bounded clause next to the no-panic proofs: the location grammar is built from go-pars
		// combinators, so "no location string makes the parser panic" is decided by the string
		// enumeration of /verif/bounded/location_bounded_test.go (clause parser-total), labelled bounded
		bo, info := eng.runBounded(locTextHarness, *repo, *verif, *tier, seed)
		boundedInfo = info
		for _, o := range bo {
			if strings.HasSuffix(o.Name, "/bounded:parser-total") || strings.HasSuffix(o.Name, "/bounded:harness-ran") {
				o.Props = []string{"C07"}
				extraObls = append(extraObls, o)
			}
		}
	}
	if id == "C16" {
		var bo []*Obligation
		bo, boundedInfo = eng.runBounded(originHarness, *repo, *verif, *tier, seed)
		extraObls = append(extraObls, bo...)
	}
	if id == "C01" {
		var bo []*Obligation
		bo, boundedInfo = eng.runBounded(genbankHarness, *repo, *verif, *tier, seed)
		extraObls = append(extraObls, bo...)
	}
	if id == "C17" {
		var bo []*Obligation
		bo, boundedInfo = eng.runBounded(fastaHarness, *repo, *verif, *tier, seed)
		extraObls = append(extraObls, bo...)
	}
	if len(work) == 0 && len(extraObls) == 0 {
		return toolFailure("no contract carries property " + id)
	}
	done := map[string]*FuncResult{}
	own := map[string]bool{}
	for _, k := range work {
		own[k] = true
	}
	var order []string
	for len(work) > 0 {
		k := work[0]
		work = work[1:]
		if done[k] != nil {
			continue
		}
		t := eng.targets[k]
		if t == nil {
			// interface contract: obligations come from the implementations (behavioural subtyping)
			continue
		}
		r := eng.verifyFunc(t)
		done[k] = r
		order = append(order, k)
		for _, d := range r.Deps {
			if done[d] == nil {
				work = append(work, d)
			}
		}
	}
	var all []*Obligation
	for _, k := range order {
		all = append(all, done[k].Obls...)
	}
	genTime := time.Since(t0).Seconds()
	eng.discharge(all, 12)
	all = append(all, extraObls...)

	// claims
	claimFile := filepath.Join(*verif, "claims", id+".txt")
	generated := map[string]*Obligation{}
	for _, o := range all {
		generated[o.Name] = o
	}
	if *updateClaims {
		lb := loadLocals(*verif)
		for _, k := range order {
			if t := eng.targets[k]; t != nil && own[k] {
				if l := localsOf(t); len(l) > 0 {
					lb[k] = l
				} else {
					delete(lb, k)
				}
			}
		}
		saveLocals(*verif, lb)
		rk := loadRangeKeys(*verif)
		for _, k := range order {
			if own[k] {
				if len(done[k].RangeKeys) > 0 {
					rk[k] = done[k].RangeKeys
				} else {
					delete(rk, k)
				}
			}
		}
		saveRangeKeys(*verif, rk)
		lo := loadLoops(*verif)
		for _, k := range order {
			if t := eng.targets[k]; t != nil && own[k] {
				if l := loopsOf(t); len(l) > 0 {
					lo[k] = l
				} else {
					delete(lo, k)
				}
			}
		}
		saveLoops(*verif, lo)
		li := loadLits(*verif)
		for _, k := range order {
			if own[k] {
				if i := strings.Index(k, "$"); i > 0 {
					parent := k[:i]
					if f, ok := eng.litFPs[parent]; ok {
						li[parent] = f
					}
				}
			}
		}
		saveLits(*verif, li)
		var names []string
		// only obligations of functions that carry the property themselves are claimed: a callee
		// that merely drops out of the dependency closure after a harmless edit is not an alarm
		for _, o := range all {
			if !ordinalName.MatchString(o.Name) && (o.ctx == nil || own[o.Func] || own[strings.SplitN(o.Func, "@", 2)[0]]) {
				names = append(names, o.Name)
			}
		}
		sort.Strings(names)
		os.MkdirAll(filepath.Dir(claimFile), 0o755)
		os.WriteFile(claimFile, []byte(strings.Join(names, "\n")+"\n"), 0o644)
	}
	var missing []string
	if data, err := os.ReadFile(claimFile); err == nil {
		for _, n := range strings.Split(strings.TrimSpace(string(data)), "\n") {
			if n = strings.TrimSpace(n); n != "" && generated[n] == nil {
				missing = append(missing, n)
			}
		}
	} else if !*updateClaims {
		return toolFailure("no claims file " + claimFile)
	}
	// Obligations of the reads-frame rules are named after the local they speak about
	// (F/rule:local).  A renamed local yields the same obligation under a new name: a claimed name
	// that vanished is paired with a generated, unclaimed obligation of the same function and rule
	// (which is discharged like every other one); only a surplus of vanished names is reported.
	var renamedObls []string
	if len(missing) > 0 {
		claimed := map[string]bool{}
		if data, err := os.ReadFile(claimFile); err == nil {
			for _, n := range strings.Split(strings.TrimSpace(string(data)), "\n") {
				claimed[strings.TrimSpace(n)] = true
			}
		}
		fresh := map[string][]string{}
		for _, o := range all {
			if m := localNamedObl.FindStringSubmatch(o.Name); m != nil && !claimed[o.Name] {
				fresh[m[1]] = append(fresh[m[1]], o.Name)
			}
		}
		var still []string
		for _, n := range missing {
			if m := localNamedObl.FindStringSubmatch(n); m != nil && len(fresh[m[1]]) > 0 {
				sort.Strings(fresh[m[1]])
				renamedObls = append(renamedObls, n+" -> "+fresh[m[1]][0])
				fresh[m[1]] = fresh[m[1]][1:]
				continue
			}
			still = append(still, n)
		}
		missing = still
	}

	// triage
	nViol := 0
	nKF := 0
	discharged := 0
	byBackend := map[string]int{}
	var solverSum, solverMax float64
	var samples []interface{}
	trusted := map[string]bool{}
	unmodelled := map[string]bool{}
	var funcs []string
	vacuity := 0
	type violation struct {
		o      *Obligation
		replay string
		tail   string
	}
	var viols []violation
	var kfLines []string
	for _, k := range order {
		r := done[k]
		funcs = append(funcs, k)
		for _, t := range r.Trusted {
			trusted[t] = true
		}
		for _, u := range r.Unmodelled {
			unmodelled[k+": "+u] = true
		}
		if len(r.Unsupported) > 0 {
			// translation failed: every claim about this function is undecided
			o := &Obligation{Name: k + "/translate", Kind: "translate", Func: k, Text: "function is inside the verified Go subset: " + strings.Join(r.Unsupported, "; "), Decided: "undecided", ctx: r.ctx,
				Result: SolverResult{Status: "unsupported", Raw: strings.Join(r.Unsupported, "\n")}}
			all = append(all, o)
			r.Obls = append(r.Obls, o)
		}
	}
	for _, n := range missing {
		o := &Obligation{Name: n, Kind: "missing", Text: "claimed obligation is no longer generated (function or contract no longer bound)", Decided: "undecided",
			Result: SolverResult{Status: "missing"}}
		all = append(all, o)
	}
	for _, o := range all {
		if o.Vacuity {
			vacuity++
		}
		solverSum += o.Result.Time
		if o.Result.Time > solverMax {
			solverMax = o.Result.Time
		}
		if o.Decided == "discharged" {
			discharged++
			byBackend[o.Result.Solver]++
			if len(samples) < 6 && !o.Vacuity && o.Result.Solver != "trivial" {
				samples = append(samples, map[string]interface{}{"obligation": o.Name, "clause": o.Text, "solver": o.Result.Solver, "time_s": o.Result.Time, "smt_commands": o.NCmds})
			}
			continue
		}
		// failed or undecided: known finding?
		if kf := matchKF(kfs, id, o); kf != nil && o.ctx == nil && kf.Guard == "true" {
			// structural obligation (no solver context): the finding covers the whole obligation
			nKF++
			kfLines = append(kfLines, fmt.Sprintf("KNOWN-FINDING: property=%s obligation=%s %s", id, o.Name, kf.What))
			o.Decided = "known-finding"
			continue
		}
		if kf := matchKF(kfs, id, o); kf != nil && o.ctx != nil {
			if eng.failsOnlyInsideGuard(o, kf) {
				nKF++
				wr := replayWitness(eng, o, kf, replayDir)
				kfLines = append(kfLines, fmt.Sprintf("KNOWN-FINDING: property=%s obligation=%s %s [%s]", id, o.Name, kf.What, wr))
				o.Decided = "known-finding"
				continue
			}
		}
		rp, tail := eng.replay(o, replayDir)
		viols = append(viols, violation{o, rp, tail})
		nViol++
	}
	for _, l := range kfLines {
		fmt.Println(l)
	}
	for _, v := range viols {
		fmt.Printf("VIOLATION property=%s replay=%s obligation=%s status=%s %s%s\n", id, v.replay, v.o.Name, v.o.Result.Status, oneLine(v.o.Text), v.tail)
	}
	if *verbose {
		for _, o := range all {
			fmt.Printf("  [%s] %s (%s %s %.2fs) %s\n", o.Decided, o.Name, o.Result.Status, o.Result.Solver, o.Result.Time, oneLine(o.Text))
		}
	}
	var tb []string
	for t := range trusted {
		tb = append(tb, t)
	}
	sort.Strings(tb)
	tb = append(tb,
		"gvc itself: translation of the Go subset (typed AST -> guarded commands -> SMT), not verified; mitigated by the must-fail corpus and by replaying counterexamples on the real code",
		"SMT solvers z3 5.1.0, cvc5 1.0.3, z3 4.8.12 (first definitive answer wins)",
		"int is modelled as mathematical integer (no overflow obligations in this tier); contracts bound coordinates to [-2^40, 2^40]",
		"Go compiler and runtime")
	var um []string
	for u := range unmodelled {
		um = append(um, u)
	}
	sort.Strings(um)
	total := len(all) - nKF
	ev.Coverage["obligations"] = total
	ev.Coverage["discharged"] = discharged
	ev.Coverage["known_findings"] = nKF
	ev.Coverage["checker_cmd"] = "gvc check -prop " + id + " -tier " + *tier + " (VC generation from /repo working tree; z3-new | cvc5 | z3 per obligation)"
	ev.Coverage["trusted_base"] = tb
	ev.Coverage["functions_under_contract"] = funcs
	ev.Coverage["own_functions"] = len(own)
	if len(renamedObls) > 0 {
		ev.Coverage["obligations_renamed"] = renamedObls
	}
	ev.Coverage["obligations_by_backend"] = byBackend
	ev.Coverage["solver_time_s"] = map[string]float64{"sum": round2(solverSum), "max": round2(solverMax)}
	ev.Coverage["vc_generation_s"] = round2(genTime)
	ev.Coverage["unmodelled_calls"] = um
	ev.Coverage["vacuity_checks"] = vacuity
	ev.Coverage["samples"] = samples
	ev.Coverage["known_finding_lines"] = kfLines
	if len(eng.renamesUsed) > 0 {
		// locals renamed since the contracts were written, bound by declaration position
		ev.Coverage["locals_rebound"] = eng.renamesUsed
	}
	if id == "C14" {
		ev.Coverage["explanation"] = "reads-frame obligations decided by a def-use walk over the typed AST of every command function that calls TryCache (no SMT): each flag/positional-derived value read after the TryCache call must occur in the encodePayload tuple list, be computed only from such values, or be the input/output path or the no-cache switch. One obligation per (command, value). Typestate half: ioDelegate.Close/Commit are verified by contract (SMT) — an uncommitted entry is removed — and per command a structural obligation shows no error return is reachable after Commit."
	}
	if id == "C11" {
		for k, v := range boundedInfo {
			ev.Coverage[k] = v
		}
		ev.Coverage["bounded_obligations"] = 2
		ev.Coverage["explanation"] = "frame obligations (assigns nothing) by SMT for every function listed in functions_under_contract; in addition ONE bounded clause, not a proof: Repair (outside the verified subset) is run on every feature table within the bound of /verif/bounded/repair_bounded_test.go and must leave its argument unchanged (obligation gts.Repair/bounded:argument-unchanged)."
	}
	if id == "C08" {
		for k, v := range boundedInfo {
			ev.Coverage[k] = v
		}
		nb := 0
		for _, o := range all {
			if o.Kind == "bounded" {
				nb++
			}
		}
		ev.Coverage["bounded_obligations"] = nb
		ev.Level = "other"
		ev.Coverage["explanation"] = "two parts: (1) proof: Modifier.Apply of the five kinds, Segment.Resize, Regions.Resize (ghost prefix sums), the locator closures, Regions.Complement/Head/Tail, Segment.Locate are under contract and discharged by SMT for all inputs; (2) BOUNDED, not proved: the text half - every modifier within the bound stated in /verif/bounded/modifier_bounded_test.go is printed and parsed back with AsModifier, and locator strings X@M are evaluated with AsLocator against X's region resized by M (the go-pars grammars are outside the verified subset); obligations named gts.AsModifier/bounded:* are outcomes of that enumeration."
	}
	if id == "C06" {
		for k, v := range boundedInfo {
			ev.Coverage[k] = v
		}
		nb := 0
		for _, o := range all {
			if o.Kind == "bounded" {
				nb++
			}
		}
		ev.Coverage["bounded_obligations"] = nb
		ev.Level = "other"
		ev.Coverage["explanation"] = "two parts: (1) proof: the join/order reduction (Push merge table, Join of two parts, Order, flattenLocations) is under contract and discharged by SMT for all inputs; (2) BOUNDED, not proved: the text half - every location within the bound stated in /verif/bounded/location_bounded_test.go is printed with String() and parsed back with AsLocation (the real go-pars grammar, outside the verified subset) and must come back as the same value (up to re-applying the reduction); obligations named gts.AsLocation/bounded:* are outcomes of that enumeration."
	}
	if id == "C15" {
		for k, v := range boundedInfo {
			ev.Coverage[k] = v
		}
		nb := 0
		for _, o := range all {
			if o.Kind == "bounded" {
				nb++
			}
		}
		ev.Coverage["bounded_obligations"] = nb
		ev.Level = "other"
		ev.Coverage["explanation"] = "two parts: (1) proof: the library steps the commands are built from (Minimize, Invert*, BySegment, Segment, Delete/Erase/Insert/Embed/Rotate/Slice) are under contract and discharged by SMT for all inputs; (2) BOUNDED, not proved: the per-record loops of the six commands are run through the gts binary built from the current tree on every site configuration within the bound stated in /verif/bounded/cli_bounded_test.go, and the residues written are compared with what the property prescribes; obligations named main.commands/bounded:* are outcomes of that enumeration."
	}
	if id == "C07" {
		for k, v := range boundedInfo {
			ev.Coverage[k] = v
		}
		ev.Coverage["bounded_obligations"] = 2
		ev.Coverage["explanation"] = "no-panic obligations (index, slice, type assertion, Repeat count, Request size, explicit panic, preconditions of callees) by SMT for the hand-written reader code listed in functions_under_contract; in addition ONE bounded clause, not a proof: the location grammar (go-pars combinators, outside the verified subset) is run on every location string within the bound of /verif/bounded/location_bounded_test.go - coordinates in any order, every leaf spelling, complements, joins and orders - and must not panic (obligation gts.AsLocation/bounded:parser-total)."
	}
	if id == "C16" {
		for k, v := range boundedInfo {
			ev.Coverage[k] = v
		}
		nb := 0
		for _, o := range all {
			if o.Kind == "bounded" {
				nb++
			}
		}
		ev.Coverage["bounded_obligations"] = nb
		ev.Coverage["explanation"] = "layout arithmetic, NewOrigin, Origin.Bytes/Len/String, the round-trip lemma, and soundness of both readers (whatever the fast validator or the line-by-line path accepts is a layout block of the declared length) are proved by SMT for all lengths; ONE clause of the property is BOUNDED, not proved: that the line-by-line path accepts every block the fast path accepts (completeness) - its lines come from pars.Line, whose tokens are unconstrained in the model, so the real ORIGIN field reader is run on every block within the bound of /verif/bounded/origin_bounded_test.go (obligations seqio.makeGenbankOriginParser/bounded:*)."
	}
	if id == "C01" {
		for k, v := range boundedInfo {
			ev.Coverage[k] = v
		}
		nb := 0
		for _, o := range all {
			if o.Kind == "bounded" {
				nb++
			}
		}
		ev.Coverage["bounded_obligations"] = nb
		ev.Level = "other"
		ev.Coverage["explanation"] = "two parts: (1) proof: the residues - NewOrigin/Origin.String lay them out, the ORIGIN reader accepts exactly a layout block of the declared length, Origin.Bytes decodes it to the same residues, for all lengths (obligations shared with C16) - and the writer glue: GenBankWriter.WriteSeq hands the formatter the record itself or the record made of the sequence's GenBankFields metadata, feature table and residues, GenBank.WriteTo writes the one formatted string; (2) BOUNDED, not proved: the text of every other field and of the feature table, and the field grammar (fmt, strings, go-wrap, go-pars: outside the verified subset) - the real writer and the real auto-detecting scanner are run on every record within the bound stated in /verif/bounded/genbank_bounded_test.go (generated records, the corpus of seqio/testdata, and records produced by pipelines of edit operations); obligations named seqio.GenBankParser/bounded:* are outcomes of that enumeration."
	}
	if id == "C17" {
		for k, v := range boundedInfo {
			ev.Coverage[k] = v
		}
		nb := 0
		for _, o := range all {
			if o.Kind == "bounded" {
				nb++
			}
		}
		ev.Coverage["bounded_obligations"] = nb
		ev.Level = "other"
		ev.Coverage["explanation"] = "two parts: (1) proof: what /repo contributes to the FASTA path is under contract and discharged by SMT for all inputs - which description and which bytes Fasta.WriteTo hands to go-wrap (width 70), fmt and the writer, the dispatch of FastaWriter.WriteSeq (description = string metadata or its String(), data = the sequence's Bytes()), GenBankFields.String (version, 1-based region suffix for slices, definition), GenBank.Bytes, the writer selection (NewWriter, detectWriter, ToFileType) and the value the FASTA parser builds from the tokens it is given; (2) BOUNDED, not proved: the text itself - go-wrap, fmt and the go-pars grammar are outside the verified subset, so the real writer and the real scanner are run on every record stream within the bound stated in /verif/bounded/fasta_bounded_test.go; obligations named seqio.FastaParser/bounded:* are outcomes of that enumeration."
	}
	if id == "C12" {
		for k, v := range boundedInfo {
			ev.Coverage[k] = v
		}
		nb := 0
		for _, o := range all {
			if o.Kind == "bounded" {
				nb++
			}
		}
		ev.Coverage["bounded_obligations"] = nb
		ev.Level = "other"
		ev.Coverage["explanation"] = "two parts: (1) proof: the merge table of LocationList.Push (the only place Repair merges anything) is under contract and discharged by SMT for all inputs; (2) BOUNDED, not proved: Repair itself (map iteration, fmt keys, unbounded linked list) is outside the verified subset, so the real function is run on every feature table within the bound stated in /verif/bounded/repair_bounded_test.go and the clauses of the property are checked on each result; obligations named gts.Repair/bounded:* are outcomes of that enumeration."
	}
	ev.Assumptions = tb
	ev.Violations = nViol
	if extra, ok := propNotes[id]; ok {
		for k, v := range extra {
			ev.Coverage[k] = v
		}
	}
	writeEv()
	fmt.Printf("property %s: %d obligations, %d discharged, %d known findings, %d violations (%.1fs)\n", id, total, discharged, nKF, nViol, time.Since(t0).Seconds())
	if nViol > 0 {
		return 1
	}
	return 0
}

// obligations named by source-order ordinal (safety checks) are not pinned in the claims file:
// a harmless edit that adds or removes an index expression renumbers them
var localNamedObl = regexp.MustCompile(`^(.+/(?:payload-value-stable|secondary-input-digested|reads-after-TryCache)):[^:/]+$`)

var ordinalName = regexp.MustCompile(`/(index|slice|div|nil|make|assert|panic|pre|conv|overflow|decreases|bits)#\d+$`)

var propNotes = map[string]map[string]interface{}{}

func round2(x float64) float64 { return float64(int(x*100+0.5)) / 100 }

func oneLine(s string) string {
	s = strings.Join(strings.Fields(s), " ")
	if len(s) > 160 {
		s = s[:157] + "..."
	}
	return s
}

// ---------------------------------------------------------------------------
// known findings

func loadKnownFindings(file string) []*KnownFinding {
	data, err := os.ReadFile(file)
	if err != nil {
		return nil
	}
	var doc struct {
		Findings []*KnownFinding `json:"findings"`
	}
	if err := json.Unmarshal(data, &doc); err != nil {
		fmt.Println("warning: cannot parse known_findings.json:", err)
		return nil
	}
	return doc.Findings
}

func matchKF(kfs []*KnownFinding, prop string, o *Obligation) *KnownFinding {
	for _, k := range kfs {
		if k.Obligation == o.Name {
			return k
		}
		if strings.Contains(k.Obligation, "*") {
			if ok, _ := filepath.Match(k.Obligation, o.Name); ok {
				return k
			}
		}
	}
	return nil
}

// failsOnlyInsideGuard re-proves the obligation under "not guard".
func (e *Engine) failsOnlyInsideGuard(o *Obligation, kf *KnownFinding) bool {
	c := o.ctx
	ex, err := parseSpecExpr(kf.Guard)
	if err != nil {
		fmt.Println("warning: bad guard in known finding:", err)
		return false
	}
	n0 := len(c.cmds)
	sc := c.specScopeAt(c.entry)
	for k, v := range c.paramVals {
		sc.vars[k] = v
	}
	nuns := len(c.unsupported)
	g := sc.boolOf(ex)
	if len(c.unsupported) > nuns {
		fmt.Println("warning: guard of known finding does not evaluate:", c.unsupported[nuns:])
		c.unsupported = c.unsupported[:nuns]
		return false
	}
	extra := append([]string(nil), c.cmds[n0:]...)
	c.cmds = c.cmds[:n0]
	var b strings.Builder
	b.WriteString(smtPrelude)
	for _, cmd := range c.cmds[:o.NCmds] {
		b.WriteString(cmd + "\n")
	}
	for _, cmd := range extra {
		b.WriteString(cmd + "\n")
	}
	b.WriteString(sx("assert", sNot(g)) + "\n")
	b.WriteString(sx("assert", o.PC) + "\n")
	b.WriteString(sx("assert", sNot(o.Prop)) + "\n")
	r := runQuery(b.String(), nil, e.timeoutS*3)
	if r.Status != "unsat" {
		return false
	}
	if kf.Instead == "" {
		return true
	}
	// inside the guard the code must still show exactly the recorded (defective) behaviour,
	// so that a different violation of the same clause is not hidden by the finding
	if o.scope == nil {
		return false
	}
	ix, err := parseSpecExpr(kf.Instead)
	if err != nil {
		fmt.Println("warning: bad 'instead' in known finding:", err)
		return false
	}
	n1 := len(c.cmds)
	alt := o.scope.boolOf(ix)
	extra2 := append([]string(nil), c.cmds[n1:]...)
	c.cmds = c.cmds[:n1]
	var b2 strings.Builder
	b2.WriteString(smtPrelude)
	for _, cmd := range c.cmds[:o.NCmds] {
		b2.WriteString(cmd + "\n")
	}
	for _, cmd := range append(extra, extra2...) {
		b2.WriteString(cmd + "\n")
	}
	b2.WriteString(sx("assert", g) + "\n")
	b2.WriteString(sx("assert", o.PC) + "\n")
	b2.WriteString(sx("assert", sNot(alt)) + "\n")
	r2 := runQuery(b2.String(), nil, e.timeoutS*3)
	return r2.Status == "unsat"
}
