package main

// Evaluation of specification expressions to SMT terms.

import (
	"fmt"
	"go/ast"
	"go/constant"
	"go/token"
	"go/types"
	"regexp"
	"strconv"
	"strings"
)

var fsetSpec = token.NewFileSet()

type SpecScope struct {
	c             *FnCtx
	cur           *State
	old           *State
	vars          map[string]Val
	oldVars       map[string]Val
	pure          bool // inside a spec function body: no state
	err           []string
	bound         map[string]bool
	ghostOverride map[string]string
	iter          *State // state at the head of the current loop iteration (iter_old)
	ghostCur      *State // ghost functions keep their current version inside old(...)
}

func (sc *SpecScope) ghostSym(name string) string {
	st := sc.cur
	if sc.ghostCur != nil {
		st = sc.ghostCur
	}
	if st == nil {
		st = sc.c.entry
	}
	return sc.c.heapSym(st, "G_"+name, "Int", 1)
}

func (sc *SpecScope) child() *SpecScope {
	n := *sc
	n.vars = map[string]Val{}
	for k, v := range sc.vars {
		n.vars[k] = v
	}
	return &n
}

func (sc *SpecScope) fail(format string, args ...interface{}) Val {
	sc.err = append(sc.err, fmt.Sprintf(format, args...))
	sc.c.unsupported = append(sc.c.unsupported, "spec: "+fmt.Sprintf(format, args...))
	return vBool("false")
}

func (sc *SpecScope) boolOf(e ast.Expr) string {
	v := sc.eval(e)
	if v.K != KBool {
		sc.fail("expected bool in spec, got kind %d for %s", v.K, nodeStr(e))
		return "false"
	}
	return v.S
}

func (sc *SpecScope) intOf(e ast.Expr) string {
	v := sc.eval(e)
	if v.K != KInt && v.K != KPtr {
		sc.fail("expected int in spec for %s", nodeStr(e))
		return "0"
	}
	return v.S
}

func nodeStr(e ast.Node) string {
	var b strings.Builder
	printer_Fprint(&b, e)
	return b.String()
}

func (sc *SpecScope) lookupType(name string) types.Type {
	c := sc.c
	if strings.HasPrefix(name, "[]") {
		if et := sc.lookupType(name[2:]); et != nil {
			return types.NewSlice(et)
		}
		return nil
	}
	if strings.HasPrefix(name, "*") {
		if et := sc.lookupType(name[1:]); et != nil {
			return types.NewPointer(et)
		}
		return nil
	}
	if i := strings.Index(name, "."); i >= 0 {
		pn, tn := name[:i], name[i+1:]
		for _, p := range c.eng.pkgs {
			if p.Name == pn {
				if o := p.Types.Scope().Lookup(tn); o != nil {
					return o.Type()
				}
			}
		}
		for _, imp := range c.pkg.Types.Imports() {
			if imp.Name() == pn {
				if o := imp.Scope().Lookup(tn); o != nil {
					return o.Type()
				}
			}
		}
		return nil
	}
	if o := c.pkg.Types.Scope().Lookup(name); o != nil {
		if _, ok := o.(*types.TypeName); ok {
			return o.Type()
		}
	}
	if o := types.Universe.Lookup(name); o != nil {
		if _, ok := o.(*types.TypeName); ok {
			return o.Type()
		}
	}
	// a contract of another repository package evaluated here (e.g. gts.ParseLocation called from
	// seqio): the name is resolved in the one loaded package that declares it
	var found types.Type
	n := 0
	for _, p := range c.eng.pkgs {
		if o := p.Types.Scope().Lookup(name); o != nil {
			if _, ok := o.(*types.TypeName); ok {
				found = o.Type()
				n++
			}
		}
	}
	if n == 1 {
		return found
	}
	return nil
}

func typeExprName(e ast.Expr) string {
	switch x := e.(type) {
	case *ast.ArrayType:
		if x.Len == nil {
			return "[]" + typeExprName(x.Elt)
		}
	case *ast.Ident:
		return x.Name
	case *ast.SelectorExpr:
		if id, ok := x.X.(*ast.Ident); ok {
			return id.Name + "." + x.Sel.Name
		}
	case *ast.StarExpr:
		return "*" + typeExprName(x.X)
	}
	return ""
}

func (sc *SpecScope) eval(e ast.Expr) Val {
	c := sc.c
	switch x := e.(type) {
	case *ast.ParenExpr:
		return sc.eval(x.X)
	case *ast.BasicLit:
		switch x.Kind {
		case token.INT:
			n, _ := strconv.ParseInt(x.Value, 0, 64)
			return vConstInt(n)
		case token.CHAR:
			s, _ := strconv.Unquote(x.Value)
			return vConstInt(int64([]rune(s)[0]))
		case token.STRING:
			s, _ := strconv.Unquote(x.Value)
			return Val{K: KStr, S: c.strLit(s)}
		}
		return sc.fail("literal %s", x.Value)
	case *ast.Ident:
		switch x.Name {
		case "true", "false":
			return vBool(x.Name)
		case "nil":
			return Val{K: KIfc, S: "nilIfc"}
		}
		if v, ok := sc.vars[x.Name]; ok {
			return v
		}
		if sc.pure {
			return sc.fail("unbound name %s in spec function", x.Name)
		}
		if v, ok := c.lookupByName(sc.cur, x.Name); ok {
			return v
		}
		return sc.fail("unbound name %s", x.Name)
	case *ast.UnaryExpr:
		switch x.Op {
		case token.NOT:
			return vBool(sNot(sc.boolOf(x.X)))
		case token.SUB:
			return vInt(sx("-", sc.intOf(x.X)))
		case token.ADD:
			return sc.eval(x.X)
		}
	case *ast.BinaryExpr:
		switch x.Op {
		case token.LAND:
			return vBool(sAnd(sc.boolOf(x.X), sc.boolOf(x.Y)))
		case token.LOR:
			return vBool(sOr(sc.boolOf(x.X), sc.boolOf(x.Y)))
		case token.EQL, token.NEQ:
			a, b := sc.eval(x.X), sc.eval(x.Y)
			t := c.valEq(a, b)
			if x.Op == token.NEQ {
				t = sNot(t)
			}
			return vBool(t)
		case token.LSS, token.LEQ, token.GTR, token.GEQ:
			ops := map[token.Token]string{token.LSS: "<", token.LEQ: "<=", token.GTR: ">", token.GEQ: ">="}
			return vBool(sx(ops[x.Op], sc.intOf(x.X), sc.intOf(x.Y)))
		case token.ADD, token.SUB, token.MUL:
			ops := map[token.Token]string{token.ADD: "+", token.SUB: "-", token.MUL: "*"}
			return vInt(sx(ops[x.Op], sc.intOf(x.X), sc.intOf(x.Y)))
		case token.QUO:
			return vInt(sx("tdiv", sc.intOf(x.X), sc.intOf(x.Y)))
		case token.REM:
			return vInt(sx("tmod", sc.intOf(x.X), sc.intOf(x.Y)))
		}
	case *ast.SelectorExpr:
		// package-qualified constant?
		if id, ok := x.X.(*ast.Ident); ok {
			if _, bound := sc.vars[id.Name]; !bound {
				if v, ok := c.lookupQualified(id.Name, x.Sel.Name); ok {
					return v
				}
			}
		}
		base := sc.eval(x.X)
		return sc.fieldOf(base, x.Sel.Name)
	case *ast.IndexExpr:
		base := sc.eval(x.X)
		idx := sc.intOf(x.Index)
		return sc.indexOf(base, idx)
	case *ast.SliceExpr:
		base := sc.eval(x.X)
		if base.K != KSlice {
			return sc.fail("slice of non-slice in spec")
		}
		lo, hi := "0", base.ln()
		if x.Low != nil {
			lo = sc.intOf(x.Low)
		}
		if x.High != nil {
			hi = sc.intOf(x.High)
		}
		return mkSlice(base.ref(), sx("+", base.off(), lo), sx("-", hi, lo), sx("-", base.cp(), lo), base.Elem, base.T)
	case *ast.TypeAssertExpr:
		base := sc.eval(x.X)
		tn := typeExprName(x.Type)
		t := sc.lookupType(tn)
		if t == nil || base.K != KIfc {
			return sc.fail("bad type assertion %s", nodeStr(e))
		}
		if base.Inner != nil {
			if types.Identical(base.T, t) {
				return *base.Inner
			}
			// unreachable when guarded by is(...): any value of the right shape will do
			return c.w.zero(t)
		}
		return c.payload(base.S, t)
	case *ast.CompositeLit:
		tn := typeExprName(x.Type)
		t := sc.lookupType(tn)
		if t == nil {
			return sc.fail("unknown type %s", tn)
		}
		proto := c.w.zero(t)
		if proto.K != KStruct && proto.K != KArray {
			return sc.fail("composite literal of %s", tn)
		}
		r := proto
		r.F = append([]Val(nil), proto.F...)
		for i, el := range x.Elts {
			if kv, ok := el.(*ast.KeyValueExpr); ok {
				name := kv.Key.(*ast.Ident).Name
				r = r.withField(name, sc.eval(kv.Value))
			} else if i < len(r.F) {
				r.F[i] = sc.coerce(sc.eval(el), proto.F[i])
			}
		}
		return r
	case *ast.CallExpr:
		return sc.call(x)
	}
	return sc.fail("unsupported spec expression %s", nodeStr(e))
}

func (sc *SpecScope) coerce(v Val, proto Val) Val {
	if v.K == proto.K {
		if v.T == nil {
			v.T = proto.T
		}
		return v
	}
	return v
}

func (sc *SpecScope) fieldOf(base Val, name string) Val {
	c := sc.c
	switch base.K {
	case KStruct:
		if f, ok := base.field(name); ok {
			return f
		}
		// promoted through embedded struct
		for i, f := range base.F {
			if f.K == KStruct {
				if g, ok := f.field(name); ok {
					_ = i
					return g
				}
			}
		}
	case KPtr:
		if base.Elem != nil {
			st := sc.cur
			d := c.readPtr(st, base.Elem, base.S)
			return sc.fieldOf(d, name)
		}
	}
	return sc.fail("no field %s", name)
}

func (sc *SpecScope) indexOf(base Val, idx string) Val {
	c := sc.c
	switch base.K {
	case KSlice:
		return c.readElem(sc.cur, base.Elem, base.ref(), sx("+", base.off(), idx))
	case KArray:
		return c.arraySelect(base, idx)
	case KStr:
		return vInt(sx("sat", base.S, idx))
	}
	return sc.fail("index of non-indexable in spec")
}

func (sc *SpecScope) call(x *ast.CallExpr) Val {
	c := sc.c
	name := ""
	switch f := x.Fun.(type) {
	case *ast.Ident:
		name = f.Name
	case *ast.SelectorExpr:
		name = typeExprName(f)
	}
	arg := func(i int) ast.Expr {
		if i < len(x.Args) {
			return x.Args[i]
		}
		sc.fail("missing argument %d of %s", i, name)
		return &ast.Ident{Name: "false"}
	}
	switch name {
	case "implies":
		// lazy: when the antecedent is literally false (e.g. a result that this return path sets
		// to the constant false) the consequent is not evaluated, so it may mention names that are
		// only bound on the paths where the antecedent can hold
		ante := sc.boolOf(arg(0))
		if ante == "false" {
			return vBool("true")
		}
		return vBool(sImp(ante, sc.boolOf(arg(1))))
	case "iff":
		return vBool(sx("=", sc.boolOf(arg(0)), sc.boolOf(arg(1))))
	case "ite":
		cnd := sc.boolOf(arg(0))
		a, b := sc.eval(arg(1)), sc.eval(arg(2))
		fa, fb := a.flat(), b.flat()
		if len(fa) != len(fb) {
			return sc.fail("ite branches of different shape")
		}
		ts := make([]string, len(fa))
		for i := range fa {
			ts[i] = sIte(cnd, fa[i].S, fb[i].S)
		}
		v, _ := unflat(a, ts)
		return v
	case "min":
		return vInt(sx("imin", sc.intOf(arg(0)), sc.intOf(arg(1))))
	case "max":
		return vInt(sx("imax", sc.intOf(arg(0)), sc.intOf(arg(1))))
	case "abs":
		return vInt(sx("iabs", sc.intOf(arg(0))))
	case "emod":
		return vInt(sx("mod", sc.intOf(arg(0)), sc.intOf(arg(1))))
	case "ediv":
		return vInt(sx("div", sc.intOf(arg(0)), sc.intOf(arg(1))))
	case "len":
		v := sc.eval(arg(0))
		switch v.K {
		case KSlice:
			return vInt(v.ln())
		case KStr:
			return vInt(sx("slen", v.S))
		case KArray:
			return vConstInt(int64(len(v.F)))
		}
		return sc.fail("len of non-sequence")
	case "cap":
		v := sc.eval(arg(0))
		if v.K == KSlice {
			return vInt(v.cp())
		}
		return sc.fail("cap of non-slice")
	case "old":
		if sc.old == nil {
			return sc.eval(arg(0))
		}
		n := *sc
		n.cur = sc.old
		if n.ghostCur == nil {
			n.ghostCur = sc.cur
		}
		n.vars = map[string]Val{}
		for k, v := range sc.vars {
			n.vars[k] = v
		}
		for k, v := range sc.oldVars {
			n.vars[k] = v
		}
		// bound variables keep their binding
		for k := range sc.bound {
			n.vars[k] = sc.vars[k]
		}
		return n.eval(arg(0))
	case "iter_old":
		if sc.iter == nil {
			return sc.fail("iter_old outside a loop")
		}
		n := *sc
		n.cur = sc.iter
		n.vars = map[string]Val{}
		for k, v := range sc.vars {
			n.vars[k] = v
		}
		return n.eval(arg(0))
	case "forall", "exists":
		id, ok := arg(0).(*ast.Ident)
		if !ok {
			return sc.fail("quantifier variable")
		}
		lo, hi := sc.intOf(arg(1)), sc.intOf(arg(2))
		// a small concrete range (e.g. over a string literal) is expanded: no quantifier
		if l, ok1 := c.constInt(lo); ok1 {
			if h, ok2 := c.constInt(hi); ok2 && h-l <= 40 {
				var parts []string
				for k := l; k < h; k++ {
					n := sc.child()
					n.vars[id.Name] = vConstInt(k)
					parts = append(parts, n.boolOf(arg(3)))
					sc.err = append(sc.err, n.err...)
				}
				if name == "forall" {
					return vBool(sAnd(parts...))
				}
				return vBool(sOr(parts...))
			}
		}
		c.nfresh++
		bv := fmt.Sprintf("%s?%d", id.Name, c.nfresh)
		n := sc.child()
		n.vars[id.Name] = vInt(bv)
		n.bound = map[string]bool{id.Name: true}
		for k := range sc.bound {
			n.bound[k] = true
		}
		c.openBound = append(c.openBound, bv)
		body := n.boolOf(arg(3))
		c.openBound = c.openBound[:len(c.openBound)-1]
		sc.err = append(sc.err, n.err...)
		rng := sAnd(sx("<=", lo, bv), sx("<", bv, hi))
		// quantify over the absolute heap index when the body reads slice elements at
		// (+ OFF k): the trigger becomes H(ref, j), which matches any ground read
		if offs := offsetsOf(body, bv); len(offs) > 0 {
			// one copy per indexed slice (equivalent formulas): each gives a plain trigger
			// H(ref, j) for the reads of that slice
			var copies []string
			for n, off := range offs {
				if n >= 3 {
					break
				}
				j := fmt.Sprintf("%sa%d", bv, n)
				if name == "forall" {
					copies = append(copies, fmt.Sprintf("(forall ((%s Int)) (let ((%s (- %s %s))) %s))", j, bv, j, off, sImp(rng, body)))
				} else {
					copies = append(copies, fmt.Sprintf("(exists ((%s Int)) (let ((%s (- %s %s))) %s))", j, bv, j, off, sAnd(rng, body)))
				}
			}
			if name == "forall" {
				return vBool(sAnd(copies...))
			}
			return vBool(copies[0])
		}
		if name == "forall" {
			return vBool(fmt.Sprintf("(forall ((%s Int)) %s)", bv, sImp(rng, body)))
		}
		return vBool(fmt.Sprintf("(exists ((%s Int)) %s)", bv, sAnd(rng, body)))
	case "forallint", "existsint":
		id, ok := arg(0).(*ast.Ident)
		if !ok {
			return sc.fail("quantifier variable")
		}
		c.nfresh++
		bv := fmt.Sprintf("%s?%d", id.Name, c.nfresh)
		n := sc.child()
		n.vars[id.Name] = vInt(bv)
		n.bound = map[string]bool{id.Name: true}
		for k := range sc.bound {
			n.bound[k] = true
		}
		c.openBound = append(c.openBound, bv)
		body := n.boolOf(arg(1))
		c.openBound = c.openBound[:len(c.openBound)-1]
		sc.err = append(sc.err, n.err...)
		q := "forall"
		if name == "existsint" {
			q = "exists"
		}
		return vBool(fmt.Sprintf("(%s ((%s Int)) %s)", q, bv, body))
	case "is":
		v := sc.eval(arg(0))
		tn := typeExprName(arg(1))
		t := sc.lookupType(tn)
		if t == nil || v.K != KIfc {
			return sc.fail("bad is(%s)", tn)
		}
		if v.Inner != nil {
			if it, ok := t.Underlying().(*types.Interface); ok {
				if types.Implements(v.T, it) {
					return vBool("true")
				}
				return vBool("false")
			}
			if types.Identical(v.T, t) {
				return vBool("true")
			}
			return vBool("false")
		}
		return vBool(c.tagTest(v.S, t))
	case "isnil":
		v := sc.eval(arg(0))
		switch v.K {
		case KIfc:
			return vBool(sx("=", sx("tag", v.S), "0"))
		case KSlice:
			return vBool(sx("=", v.ref(), "0"))
		case KPtr:
			return vBool(sx("=", v.S, "0"))
		case KStruct, KArray:
			return vBool("false")
		}
		return sc.fail("isnil of scalar")
	case "tag":
		v := sc.eval(arg(0))
		return vInt(sx("tag", v.S))
	case "fresh":
		// allocated during this call (relative to the old state's allocation counter)
		v := sc.eval(arg(0))
		base := "alloc0"
		if sc.old != nil {
			base = sc.old.alloc
		}
		switch v.K {
		case KSlice:
			return vBool(sOr(sx(">=", v.ref(), base), sx("=", v.cp(), "0")))
		case KPtr:
			return vBool(sx(">=", v.S, base))
		}
		return sc.fail("fresh of non-reference")
	case "ghostint":
		bl, ok := arg(0).(*ast.BasicLit)
		if !ok {
			return sc.fail("ghostint needs a string literal")
		}
		nm, _ := strconv.Unquote(bl.Value)
		st := sc.cur
		if st == nil {
			st = c.entry
		}
		return vInt(c.ghostIntGet(st, nm))
	case "unquote":
		c.declare("unquote", []string{"Str"}, "Str")
		v := sc.eval(arg(0))
		return Val{K: KStr, S: sx("unquote", v.S)}
	case "reMatch":
		c.declare("reMatch", []string{"Int", "Str"}, "Bool")
		re := sc.eval(arg(0))
		str := sc.eval(arg(1))
		return vBool(sx("reMatch", re.S, str.S))
	case "refof", "offof":
		v := sc.eval(arg(0))
		if v.K != KSlice {
			return sc.fail("refof/offof of non-slice")
		}
		if name == "refof" {
			return vInt(v.ref())
		}
		return vInt(v.off())
	case "isold":
		// allocated before the state in which the clause is evaluated (requires: before the call)
		v := sc.eval(arg(0))
		bound := "alloc0"
		if sc.cur != nil {
			bound = sc.cur.alloc
		}
		switch v.K {
		case KSlice:
			return vBool(sx("<", v.ref(), bound))
		case KPtr:
			return vBool(sx("<", v.S, bound))
		}
		return sc.fail("isold of non-reference")
	case "unchanged":
		// unchanged(s): every element of slice s reads the same now as in the old state
		v := sc.eval(arg(0))
		if v.K != KSlice || sc.old == nil {
			return sc.fail("unchanged needs a slice and an old state")
		}
		c.nfresh++
		bv := fmt.Sprintf("u?%d", c.nfresh)
		idx := sx("+", v.off(), bv)
		c.openBound = append(c.openBound, bv)
		a := c.readElem(sc.cur, v.Elem, v.ref(), idx)
		b := c.readElem(sc.old, v.Elem, v.ref(), idx)
		c.openBound = c.openBound[:len(c.openBound)-1]
		return vBool(fmt.Sprintf("(forall ((%s Int)) %s)", bv, sImp(sAnd(sx("<=", "0", bv), sx("<", bv, v.ln())), c.valEq(a, b))))
	case "sameslice":
		a, b := sc.eval(arg(0)), sc.eval(arg(1))
		return vBool(c.valEq(a, b))
	case "int":
		return sc.eval(arg(0))
	case "dig9":
		c.useDig9()
		return vInt(sx("dig9", sc.intOf(arg(0)), sc.intOf(arg(1))))
	case "b2i":
		return vInt(sIte(sc.boolOf(arg(0)), "1", "0"))
	case "heapframe":
		// every location allocated before the call reads the same as in the old state
		if sc.old == nil {
			return vBool("true")
		}
		return vBool(c.frameFormula(sc.old, sc.cur, sc.old.alloc, nil))
	}
	if sym, ok := sc.ghostOverride[name]; ok {
		var as []string
		for i := range x.Args {
			as = append(as, sc.intOf(x.Args[i]))
		}
		return vInt(sx(sym, as...))
	}
	if c.spec != nil && !sc.pure {
		for _, g := range c.spec.GhostFns {
			if g.Name == name {
				sym := sc.ghostSym(name)
				var as []string
				for i := range x.Args {
					as = append(as, sc.intOf(x.Args[i]))
				}
				return vInt(sx(sym, as...))
			}
		}
	}
	if sym, ok := sc.ghostOverride[name]; ok {
		var as []string
		for i := range x.Args {
			as = append(as, sc.intOf(x.Args[i]))
		}
		return vInt(sx(sym, as...))
	}
	if sym, ok := c.ghostFns[name]; ok {
		var as []string
		for i := range x.Args {
			as = append(as, sc.intOf(x.Args[i]))
		}
		return vInt(sx(sym, as...))
	}
	// application of a function value (parameter, captured variable, slice element)
	{
		var fv Val
		isFn := false
		if name != "" {
			if v, ok := sc.vars[name]; ok && v.K == KFn {
				fv, isFn = v, true
			} else if !ok && !sc.pure {
				if v, ok := c.lookupByName(sc.cur, name); ok && v.K == KFn {
					fv, isFn = v, true
				}
			}
		} else {
			v := sc.eval(x.Fun)
			if v.K == KFn {
				fv, isFn = v, true
			}
		}
		if isFn {
			sig, _ := fv.T.Underlying().(*types.Signature)
			if sig == nil {
				return sc.fail("application of a function value of unknown type")
			}
			var args []Val
			for i := range x.Args {
				a := sc.eval(x.Args[i])
				if i < sig.Params().Len() && a.T == nil {
					a.T = sig.Params().At(i).Type()
				}
				args = append(args, a)
			}
			return c.applyFn(sc.cur, fv, sig, args)
		}
	}
	// conversion to a named type: T(x)
	if t := sc.lookupType(name); t != nil && len(x.Args) == 1 {
		v := sc.eval(x.Args[0])
		v.T = t
		return v
	}
	// spec function
	if sf, ok := c.eng.contracts.SpecFuncs[name]; ok {
		var args []string
		var argVals []Val
		static := false
		for i := range x.Args {
			v := sc.eval(x.Args[i])
			if i < len(sf.PTypes) && c.specSort(sf.PTypes[i]) == "Ifc" && (v.K != KIfc || v.Inner != nil) && v.T != nil {
				if v.Inner == nil {
					inner := v
					v = Val{K: KIfc, S: "nilIfc", T: inner.T, Inner: &inner}
				}
				static = true
			}
			if v.Inner != nil && sf.Body == nil && !sc.pure {
				// uninterpreted function of an interface value: box for real
				v = c.box(*v.Inner, v.T)
			}
			argVals = append(argVals, v)
			for _, s := range v.flat() {
				args = append(args, s.S)
			}
		}
		if sf.Macro && sf.Body != nil {
			n := sc.child()
			for i, p := range sf.Params {
				if i < len(argVals) {
					n.vars[p] = argVals[i]
				}
			}
			r := n.eval(sf.Body)
			sc.err = append(sc.err, n.err...)
			return r
		}
		if static && sf.Body != nil {
			// a concrete value passed where the spec function takes an interface: expand the body
			// in place with the dynamic type known statically
			n := &SpecScope{c: c, cur: sc.cur, old: sc.old, vars: map[string]Val{}, pure: true, bound: sc.bound}
			for i, p := range sf.Params {
				if i < len(argVals) {
					n.vars[p] = argVals[i]
				}
			}
			r := n.eval(sf.Body)
			sc.err = append(sc.err, n.err...)
			return r
		}
		if rt := sc.compositeRet(sf); rt != nil {
			return c.useCompositeSpecFunc(sf, rt, args, sc)
		}
		sym, ret := c.useSpecFunc(sf)
		if len(args) == 0 {
			return Val{K: sortKind(ret), S: sym}
		}
		return Val{K: sortKind(ret), S: sx(sym, args...)}
	}
	return sc.fail("unknown spec function %s", name)
}

func sortKind(s string) Kind {
	switch s {
	case "Int":
		return KInt
	case "Bool":
		return KBool
	case "Str":
		return KStr
	case "Ifc":
		return KIfc
	}
	return KInt
}

// useSpecFunc emits the definition of a spec function on first use.
func (c *FnCtx) useSpecFunc(sf *SpecFunc) (sym, retSort string) {
	sym = "sf_" + sf.Name
	retSort = c.specSort(sf.Ret)
	if c.declared[sym] {
		return
	}
	c.declared[sym] = true
	defer c.emitAxiomsFor(sf.Name)
	var params []string
	var sorts []string
	sc := &SpecScope{c: c, vars: map[string]Val{}, pure: true}
	for i, p := range sf.Params {
		tn := sf.PTypes[i]
		if s := c.specSort(tn); s != "" && (tn == "int" || tn == "bool" || tn == "string" || tn == "byte") {
			params = append(params, fmt.Sprintf("(%s %s)", p, s))
			sorts = append(sorts, s)
			sc.vars[p] = Val{K: sortKind(s), S: p}
			continue
		}
		tmp := &SpecScope{c: c}
		t := tmp.lookupType(tn)
		if t == nil {
			c.unsupported = append(c.unsupported, "spec func "+sf.Name+": unknown type "+tn)
			continue
		}
		v := c.w.proto(t, p, func(path, sort string) string {
			params = append(params, fmt.Sprintf("(%s %s)", path, sort))
			sorts = append(sorts, sort)
			return path
		})
		sc.vars[p] = v
	}
	if sf.Body == nil {
		c.declared[sym] = false
		c.declare(sym, sorts, retSort)
		// axioms mentioning it are emitted by the engine (useAxioms)
		return
	}
	body := sc.eval(sf.Body)
	if sf.Opaque && len(params) > 0 {
		revealed := c.spec != nil && c.spec.IsLemma
		if c.spec != nil {
			for _, r := range c.spec.Reveal {
				if r == sf.Name {
					revealed = true
				}
			}
		}
		c.declared[sym] = false
		c.declare(sym, sorts, retSort)
		if revealed {
			var names []string
			for _, p := range params {
				names = append(names, strings.Fields(strings.Trim(p, "()"))[0])
			}
			app := sx(sym, names...)
			c.emit(fmt.Sprintf("(assert (forall (%s) (! (= %s %s) :pattern (%s))))", strings.Join(params, " "), app, body.S, app))
		}
		// not revealed: uninterpreted here; facts come from lemmas instantiated with `use`
		return
	}
	if len(params) == 0 {
		c.emit(fmt.Sprintf("(define-fun %s () %s %s)", sym, retSort, body.S))
	} else {
		c.emit(fmt.Sprintf("(define-fun %s (%s) %s %s)", sym, strings.Join(params, " "), retSort, body.S))
	}
	return
}

func (c *FnCtx) specSort(tn string) string {
	switch tn {
	case "int", "byte":
		return "Int"
	case "bool":
		return "Bool"
	case "string":
		return "Str"
	}
	tmp := &SpecScope{c: c}
	if t := tmp.lookupType(tn); t != nil {
		if _, ok := t.Underlying().(*types.Interface); ok {
			return "Ifc"
		}
		if b, ok := t.Underlying().(*types.Basic); ok {
			if b.Info()&types.IsInteger != 0 {
				return "Int"
			}
			if b.Info()&types.IsBoolean != 0 {
				return "Bool"
			}
		}
	}
	return "Int"
}

// ---------------------------------------------------------------------------
// helpers shared with the executor

func (c *FnCtx) valEq(a, b Val) string {
	if a.K == KIfc && b.K == KIfc {
		if b.S == "nilIfc" {
			return sx("=", sx("tag", a.S), "0")
		}
		if a.S == "nilIfc" {
			return sx("=", sx("tag", b.S), "0")
		}
	}
	if a.K == KSlice && b.K == KIfc && b.S == "nilIfc" {
		return sx("=", a.ref(), "0")
	}
	if a.K == KPtr && b.K == KIfc && b.S == "nilIfc" {
		return sx("=", a.S, "0")
	}
	if a.K == KFn && b.K == KIfc && b.S == "nilIfc" {
		return sx("=", a.S, "nilFn")
	}
	if a.K == KMap && b.K == KIfc && b.S == "nilIfc" {
		return sx("=", a.S, "nilMap")
	}
	if b.K != KIfc && a.K == KIfc && a.S == "nilIfc" {
		return c.valEq(b, a)
	}
	fa, fb := a.flat(), b.flat()
	if len(fa) != len(fb) {
		c.unsupported = append(c.unsupported, "comparison of values of different shapes")
		return "false"
	}
	var eqs []string
	for i := range fa {
		if fa[i].S == fb[i].S {
			continue
		}
		eqs = append(eqs, sx("=", fa[i].S, fb[i].S))
	}
	return sAnd(eqs...)
}

func (c *FnCtx) arraySelect(base Val, idx string) Val {
	if len(base.F) == 0 {
		return vInt("0")
	}
	// constant index?
	if n, err := strconv.Atoi(idx); err == nil && n >= 0 && n < len(base.F) {
		return base.F[n]
	}
	cur := base.F[len(base.F)-1].flat()
	terms := make([]string, len(cur))
	for j := range cur {
		t := cur[j].S
		for i := len(base.F) - 2; i >= 0; i-- {
			t = sIte(sx("=", idx, sInt(int64(i))), base.F[i].flat()[j].S, t)
		}
		terms[j] = t
	}
	v, _ := unflat(base.F[0], terms)
	return v
}

// strLit returns the SMT constant for a string literal (with length/content facts).
func (c *FnCtx) strLit(s string) string {
	if s == "" {
		c.declare("strEmpty", nil, "Str")
		c.fact("(= (slen strEmpty) 0)")
		return "strEmpty"
	}
	if n, ok := c.strLits[s]; ok {
		return n
	}
	c.declare("strEmpty", nil, "Str")
	c.fact("(= (slen strEmpty) 0)")
	name := fmt.Sprintf("str!%d", len(c.strLits))
	c.declare(name, nil, "Str")
	c.knownInts[sx("slen", name)] = int64(len(s))
	c.emit(fmt.Sprintf("(assert (= (slen %s) %d))", name, len(s)))
	if len(s) <= 64 {
		for i := 0; i < len(s); i++ {
			c.emit(fmt.Sprintf("(assert (= (sat %s %d) %d))", name, i, s[i]))
		}
	}
	for o, on := range c.strLits {
		_ = o
		c.emit(fmt.Sprintf("(assert (not (= %s %s)))", name, on))
	}
	c.strLits[s] = name
	return name
}

// payload reads the components of dynamic type t out of an interface value.
func (c *FnCtx) payload(ifc string, t types.Type) Val {
	tn := smtName(typeKey(t))
	j := 0
	return c.w.proto(t, "", func(path, sort string) string {
		g := fmt.Sprintf("get_%s_%d", tn, j)
		j++
		c.declare(g, []string{"Ifc"}, sort)
		return sx(g, ifc)
	})
}

// box converts a concrete value to an interface value.
func (c *FnCtx) box(v Val, t types.Type) Val {
	if v.K == KIfc {
		return v
	}
	if _, isIface := t.Underlying().(*types.Interface); isIface {
		return v
	}
	id := c.w.typeID(t)
	tn := smtName(typeKey(t))
	fl := v.flat()
	// re-boxing the unmodified payload of an interface value gives that value back
	if len(fl) > 0 {
		pre0 := fmt.Sprintf("(get_%s_0 ", tn)
		if strings.HasPrefix(fl[0].S, pre0) && strings.HasSuffix(fl[0].S, ")") {
			src := fl[0].S[len(pre0) : len(fl[0].S)-1]
			same := true
			for j, s := range fl {
				if s.S != fmt.Sprintf("(get_%s_%d %s)", tn, j, src) {
					same = false
				}
			}
			if same {
				return Val{K: KIfc, S: src}
			}
		}
	}
	var sorts, args []string
	for _, s := range fl {
		sorts = append(sorts, s.Sort)
		args = append(args, s.S)
	}
	mk := "mk_" + tn
	var term string
	if len(args) == 0 {
		c.declare(mk, nil, "Ifc")
		term = mk
	} else {
		c.declare(mk, sorts, "Ifc")
		term = sx(mk, args...)
	}
	c.fact(sx("=", sx("tag", term), sInt(int64(id))))
	for j, s := range fl {
		g := fmt.Sprintf("get_%s_%d", tn, j)
		c.declare(g, []string{"Ifc"}, s.Sort)
		c.fact(sx("=", sx(g, term), s.S))
	}
	return Val{K: KIfc, S: term}
}

// tagTest is the condition "dynamic type of ifc is t" (t concrete) or "implements t" (t interface).
func (c *FnCtx) tagTest(ifc string, t types.Type) string {
	if it, ok := t.Underlying().(*types.Interface); ok {
		if it.NumMethods() == 0 {
			return sNot(sx("=", sx("tag", ifc), "0"))
		}
		ids := c.w.implementers(it)
		var alts []string
		for _, id := range ids {
			alts = append(alts, sx("=", sx("tag", ifc), sInt(int64(id))))
		}
		return sOr(alts...)
	}
	return sx("=", sx("tag", ifc), sInt(int64(c.w.typeID(t))))
}

// lookupQualified resolves pkg.Name constants / variables for specs.
func (c *FnCtx) lookupQualified(pkgName, name string) (Val, bool) {
	for _, imp := range c.pkg.Types.Imports() {
		if imp.Name() == pkgName {
			if o := imp.Scope().Lookup(name); o != nil {
				if k, ok := o.(*types.Const); ok {
					return c.constVal(k.Val(), k.Type()), true
				}
				if vr, ok := o.(*types.Var); ok {
					return c.globalVar(vr)
				}
			}
		}
	}
	return Val{}, false
}

func (c *FnCtx) constVal(v constant.Value, t types.Type) Val {
	switch v.Kind() {
	case constant.Bool:
		if constant.BoolVal(v) {
			return Val{K: KBool, S: "true", T: t}
		}
		return Val{K: KBool, S: "false", T: t}
	case constant.Int:
		n, _ := constant.Int64Val(v)
		return Val{K: KInt, S: sInt(n), T: t}
	case constant.String:
		return Val{K: KStr, S: c.strLit(constant.StringVal(v)), T: t}
	}
	return Val{K: KInt, S: c.fresh("const", "Int"), T: t}
}

// offsetOf finds the slice offset OFF when every index sum mentioning bv has the form
// (+ OFF bv) or (+ OFF (+ bv c)) with the same OFF (an atom or a parenthesised term not
// mentioning bv).
func offsetOf(body, bv string) string {
	if o := offsetsOf(body, bv); len(o) > 0 {
		return o[0]
	}
	return ""
}

// offsetsOf lists the distinct slice offsets OFF for which the body has an index sum
// (+ OFF bv), (+ OFF (+ bv c)) or (+ OFF (- bv c)).
func offsetsOf(body, bv string) []string {
	var offs []string
	for i := 0; i+3 < len(body); i++ {
		if !strings.HasPrefix(body[i:], "(+ ") {
			continue
		}
		// first operand
		j := i + 3
		start := j
		if body[j] == '(' {
			d := 0
			for ; j < len(body); j++ {
				if body[j] == '(' {
					d++
				} else if body[j] == ')' {
					d--
					if d == 0 {
						j++
						break
					}
				}
			}
		} else {
			for j < len(body) && body[j] != ' ' && body[j] != ')' {
				j++
			}
		}
		if j >= len(body) || body[j] != ' ' {
			continue
		}
		x := body[start:j]
		rest := body[j+1:]
		if !(strings.HasPrefix(rest, bv+")") || strings.HasPrefix(rest, "(+ "+bv+" ") || strings.HasPrefix(rest, "(- "+bv+" ")) {
			continue
		}
		if strings.Contains(x, bv) || x == "0" {
			continue
		}
		if _, err := strconv.Atoi(x); err == nil {
			continue
		}
		if strings.Contains(x, "?") {
			continue
		}
		dup := false
		for _, o := range offs {
			if o == x {
				dup = true
			}
		}
		if !dup {
			offs = append(offs, x)
		}
	}
	return offs
}

// emitAxiomsFor emits (once) every axiom that mentions the named spec function.
func (c *FnCtx) emitAxiomsFor(name string) {
	for _, ax := range c.eng.contracts.Axioms {
		if c.axiomsDone[ax.Name] {
			continue
		}
		if !regexp.MustCompile(`\b` + name + `\(`).MatchString(ax.Src) {
			continue
		}
		c.axiomsDone[ax.Name] = true
		sc := &SpecScope{c: c, cur: c.entry, vars: map[string]Val{}, pure: true}
		t := sc.boolOf(ax.Expr)
		c.emit(sx("assert", t))
		c.trusted["specification axiom "+ax.Name+": "+oneLine(ax.Src)] = true
	}
}

// compositeRet returns the Go type of a spec function result that is not a scalar.
func (sc *SpecScope) compositeRet(sf *SpecFunc) types.Type {
	switch sf.Ret {
	case "int", "bool", "string", "byte":
		return nil
	}
	t := sc.lookupType(sf.Ret)
	if t == nil && strings.HasPrefix(sf.Ret, "[]") {
		if et := sc.lookupType(sf.Ret[2:]); et != nil {
			t = types.NewSlice(et)
		}
	}
	if t == nil {
		return nil
	}
	switch t.Underlying().(type) {
	case *types.Slice, *types.Struct, *types.Array:
		return t
	}
	return nil
}

// useCompositeSpecFunc applies an uninterpreted spec function with a slice/struct result:
// one uninterpreted function per scalar component.
func (c *FnCtx) useCompositeSpecFunc(sf *SpecFunc, rt types.Type, args []string, sc *SpecScope) Val {
	var sorts []string
	for _, tn := range sf.PTypes {
		if s := c.specSort(tn); s != "" {
			sorts = append(sorts, s)
		}
	}
	v := c.w.proto(rt, "", func(path, sort string) string {
		sym := "sf_" + sf.Name + path
		c.declare(sym, sorts, sort)
		if len(args) == 0 {
			return sym
		}
		return sx(sym, args...)
	})
	v.T = rt
	for _, f := range c.typeFacts(v) {
		c.fact(f)
	}
	// what an existing value exposes was allocated before the state it is observed in
	if sc != nil && sc.cur != nil && !sc.pure {
		var below func(x Val)
		below = func(x Val) {
			switch x.K {
			case KSlice:
				c.fact(sx("<", x.ref(), sc.cur.alloc))
			case KStruct, KArray:
				for _, f := range x.F {
					below(f)
				}
			}
		}
		below(v)
	}
	if !c.declared["sfc_"+sf.Name] {
		c.declared["sfc_"+sf.Name] = true
		c.emitAxiomsFor(sf.Name)
	}
	return v
}

// constInt evaluates a term to an integer when it is a numeral or a term of known value
// (the length of a string literal).
func (c *FnCtx) constInt(t string) (int64, bool) {
	if n, err := strconv.ParseInt(t, 10, 64); err == nil {
		return n, true
	}
	if n, ok := c.knownInts[t]; ok {
		return n, true
	}
	return 0, false
}

// evalTarget evaluates an assigns target.  A target of the form x.(T) denotes the payload's
// storage only when x holds a T: otherwise the excepted region is empty (length 0).
func (sc *SpecScope) evalTarget(ex ast.Expr) Val {
	v := sc.eval(ex)
	if ta, ok := ast.Unparen(ex).(*ast.TypeAssertExpr); ok && v.K == KSlice {
		g := sc.eval(&ast.CallExpr{Fun: ast.NewIdent("is"), Args: []ast.Expr{ta.X, ta.Type}})
		if g.K == KBool {
			// a value of dynamic type T carries a well-formed slice header
			for _, f := range sc.c.typeFacts(v) {
				sc.c.fact(sImp(g.S, f))
			}
			r := v
			r.F = append([]Val(nil), v.F...)
			r.F[2] = vInt(sIte(g.S, v.ln(), "0"))
			return r
		}
	}
	return v
}
