package main

// Bounded stand-in for Repair (property C12): the real function is run, through a test file
// injected with `go test -overlay`, on every feature table up to the bound stated in
// /verif/bounded/repair_bounded_test.go.  The outcomes become obligations of kind "bounded";
// they are never counted as proved.

import (
	"bufio"
	"encoding/json"
	"fmt"
	"os"
	"os/exec"
	"path/filepath"
	"strconv"
	"strings"
	"time"
)

type boundedHarness struct {
	prop    string
	subject string // obligation name prefix, e.g. gts.Repair
	pos     string
	file    string // under /verif/bounded
	pkgDir  string // package directory under /repo the test file is injected into
	test    string // test function
	clauses []string
	labels  [][2]string // defect classes the harness can tell apart (clause, label)
}

var repairHarness = boundedHarness{prop: "C12", subject: "gts.Repair", pos: "feature.go", file: "repair_bounded_test.go", pkgDir: ".", test: "TestVerifBoundedRepair",
	clauses: []string{"never-panics", "argument-unchanged", "coverage-preserved", "idempotent", "unchanged-when-nothing-abuts", "classes-kept-apart", "restores-after-cut"},
	labels: [][2]string{
		{"never-panics", "table-has-join"},
		{"coverage-preserved", "point-after-range-end-dropped"},
		{"unchanged-when-nothing-abuts", "same-class-complement-pair-fused"},
	}}

var locTextHarness = boundedHarness{prop: "C06", subject: "gts.AsLocation", pos: "location.go", file: "location_bounded_test.go", pkgDir: ".", test: "TestVerifBoundedLocationText",
	clauses: []string{"printed-location-parses", "print-parse-roundtrip", "space-after-comma", "legacy-3prime-marker", "parser-total", "accepted-string-fixed-point"}}

var modTextHarness = boundedHarness{prop: "C08", subject: "gts.AsModifier", pos: "modifier.go", file: "modifier_bounded_test.go", pkgDir: ".", test: "TestVerifBoundedModifierText",
	clauses: []string{"printed-modifier-parses", "modifier-print-parse-roundtrip", "locator-is-region-resized"}}

var cliHarness = boundedHarness{prop: "C15", subject: "main.commands", pos: "cmd/gts", file: "cli_bounded_test.go", pkgDir: "cmd/gts", test: "TestVerifBoundedCLI",
	clauses: []string{"delete-removes-union", "delete-removes-union-e", "insert-once-per-site", "insert-once-per-site-e", "infix-once-per-site", "rotate-first-site-to-zero", "split-pieces-tile-input", "extract-each-site-once-in-order", "extract-v-unlocated-stretches"}}

var fastaHarness = boundedHarness{prop: "C17", subject: "seqio.FastaParser", pos: "seqio/fasta.go", file: "fasta_bounded_test.go", pkgDir: "seqio", test: "TestVerifBoundedFasta",
	clauses: []string{"fasta-writes", "layout-70-columns", "roundtrip-lf", "roundtrip-crlf", "genbank-to-fasta"}}

var genbankHarness = boundedHarness{prop: "C01", subject: "seqio.GenBankParser", pos: "seqio/genbank.go", file: "genbank_bounded_test.go", pkgDir: "seqio", test: "TestVerifBoundedGenBank",
	clauses: []string{"record-writes", "written-record-parses", "residues-kept", "features-kept", "header-kept", "write-read-write-fixed-point", "stream-framed-independently", "unknown-qualifier-names", "corpus-declared-length"},
	labels: [][2]string{
		{"record-writes", "empty-region"},
	}}

var originHarness = boundedHarness{prop: "C16", subject: "seqio.makeGenbankOriginParser", pos: "seqio/genbank_subparsers.go", file: "origin_bounded_test.go", pkgDir: "seqio", test: "TestVerifBoundedOrigin",
	clauses: []string{"valid-block-accepted-lf", "valid-block-accepted-crlf", "valid-block-accepted-padded", "valid-block-accepted-crlf-padded", "corrupted-block-rejected"}}

func (e *Engine) runBounded(h boundedHarness, repo, verif, tier string, seed int) ([]*Obligation, map[string]interface{}) {
	info := map[string]interface{}{}
	src := filepath.Join(verif, "bounded", h.file)
	ov := filepath.Join(scratchDir, "bounded_overlay_"+h.prop+".json")
	b, _ := json.Marshal(map[string]interface{}{"Replace": map[string]string{filepath.Join(repo, h.pkgDir, "zz_verif_bounded_test.go"): src}})
	os.WriteFile(ov, b, 0o644)
	timeout := "900s"
	if tier == "thorough" {
		timeout = "3600s"
	}
	cmd := exec.Command("go", "test", "-overlay", ov, "-vet=off", "-v", "-count=1", "-timeout", timeout, "-run", "^"+h.test+"$", ".")
	cmd.Dir = filepath.Join(repo, h.pkgDir)
	cmd.Env = append(os.Environ(), "GOFLAGS=-mod=mod", "GOPROXY=off", "GOSUMDB=off", "GOTOOLCHAIN=local", "VERIF_TIER="+tier, "VERIF_SEED="+strconv.Itoa(seed))
	t0 := time.Now()
	outB, err := cmd.CombinedOutput()
	dt := time.Since(t0).Seconds()
	out := string(outB)
	type fail struct {
		n       string
		example string
	}
	fails := map[string]fail{}
	stats := ""
	sc := bufio.NewScanner(strings.NewReader(out))
	sc.Buffer(make([]byte, 1<<20), 1<<24)
	for sc.Scan() {
		line := sc.Text()
		if strings.HasPrefix(line, "VB-STATS ") {
			stats = strings.TrimPrefix(line, "VB-STATS ")
		}
		if strings.HasPrefix(line, "VB-FAIL\t") {
			f := strings.SplitN(line, "\t", 5)
			if len(f) == 5 {
				fails[f[1]+"/"+f[2]] = fail{f[3], f[4]}
			}
		}
	}
	info["bounded_cmd"] = "cd /repo/" + h.pkgDir + " && go test -overlay <zz_verif_bounded_test.go -> /verif/bounded/" + h.file + "> -run " + h.test + " . (VERIF_TIER=" + tier + ")"
	info["bounded_stats"] = stats
	info["bounded_seconds"] = dt
	mk := func(name, text string) *Obligation {
		return &Obligation{Name: h.subject + "/bounded:" + name, Kind: "bounded", Func: h.subject, Pos: h.pos, Text: text, Props: []string{h.prop},
			Result: SolverResult{Solver: "bounded-enumeration (go test on the real code)", Time: dt}}
	}
	var obls []*Obligation
	ran := mk("harness-ran", "the bounded harness built and ran to completion on the current tree")
	if stats == "" || (err != nil && !strings.Contains(out, "VB-STATS")) {
		ran.Decided = "failed"
		ran.Result.Status = "error"
		tail := out
		if len(tail) > 3000 {
			tail = tail[len(tail)-3000:]
		}
		ran.Result.Raw = "harness did not complete: " + fmt.Sprint(err) + "\n" + tail
		return append(obls, ran), info
	}
	ran.Decided = "discharged"
	ran.Result.Status = "unsat"
	obls = append(obls, ran)
	for _, cl := range h.clauses {
		o := mk(cl, "clause '"+cl+"' holds on every input within the bound ("+stats+"), defect classes listed separately aside")
		if f, ok := fails[cl+"/other"]; ok {
			o.Decided = "failed"
			o.Result.Status = "sat"
			o.Result.Raw = f.n + " failing inputs within the bound; first: " + f.example
		} else {
			o.Decided = "discharged"
			o.Result.Status = "unsat"
		}
		obls = append(obls, o)
	}
	for _, cl := range h.labels {
		o := mk(cl[0]+"/"+cl[1], "no input within the bound fails clause '"+cl[0]+"' in the way labelled '"+cl[1]+"'")
		if f, ok := fails[cl[0]+"/"+cl[1]]; ok {
			o.Decided = "failed"
			o.Result.Status = "sat"
			o.Result.Raw = f.n + " failing inputs within the bound; first: " + f.example
		} else {
			o.Decided = "discharged"
			o.Result.Status = "unsat"
		}
		obls = append(obls, o)
	}
	return obls, info
}
