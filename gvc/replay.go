package main

// Counterexample replay: read the solver model back into Go literals, inject an
// in-package test with "go test -overlay", evaluate the contract on the real code.

import (
	"encoding/json"
	"fmt"
	"go/ast"
	"go/token"
	"go/types"
	"os"
	"os/exec"
	"path/filepath"
	"regexp"
	"sort"
	"strconv"
	"strings"
	"time"
)

type ReplayDoc struct {
	Property    string            `json:"property"`
	Obligation  string            `json:"obligation"`
	Kind        string            `json:"kind"`
	Clause      string            `json:"clause"`
	Position    string            `json:"position,omitempty"`
	Solver      string            `json:"solver"`
	Status      string            `json:"solver_status"`
	SolverOut   string            `json:"solver_output"`
	Inputs      map[string]string `json:"inputs,omitempty"`
	Confirmed   bool              `json:"confirmed_on_real_code"`
	Observed    []string          `json:"observed,omitempty"`
	TestSource  string            `json:"test_source,omitempty"`
	TestCommand string            `json:"test_command,omitempty"`
	Note        string            `json:"note,omitempty"`
}

// ---------------------------------------------------------------------------
// S-expression parsing of (get-value ...) answers

type sexp struct {
	atom string
	list []*sexp
}

func parseSexp(s string) []*sexp {
	var stack [][]*sexp
	cur := []*sexp{}
	i := 0
	for i < len(s) {
		ch := s[i]
		switch {
		case ch == '(':
			stack = append(stack, cur)
			cur = []*sexp{}
			i++
		case ch == ')':
			node := &sexp{list: cur}
			if len(stack) == 0 {
				return cur
			}
			cur = stack[len(stack)-1]
			stack = stack[:len(stack)-1]
			cur = append(cur, node)
			i++
		case ch == ' ' || ch == '\n' || ch == '\t' || ch == '\r':
			i++
		case ch == '|':
			j := strings.IndexByte(s[i+1:], '|')
			if j < 0 {
				return cur
			}
			cur = append(cur, &sexp{atom: s[i : i+j+2]})
			i += j + 2
		default:
			j := i
			for j < len(s) && !strings.ContainsRune("() \n\t\r", rune(s[j])) {
				j++
			}
			cur = append(cur, &sexp{atom: s[i:j]})
			i = j
		}
	}
	return cur
}

func (s *sexp) String() string {
	if s.list == nil {
		return s.atom
	}
	var xs []string
	for _, x := range s.list {
		xs = append(xs, x.String())
	}
	return "(" + strings.Join(xs, " ") + ")"
}

func (s *sexp) intVal() (int64, bool) {
	if s.list == nil {
		n, err := strconv.ParseInt(s.atom, 10, 64)
		return n, err == nil
	}
	if len(s.list) == 2 && s.list[0].atom == "-" {
		n, ok := s.list[1].intVal()
		return -n, ok
	}
	return 0, false
}

// getValues runs the failing query again asking for terms; returns term -> value sexp.
func getValues(o *Obligation, terms []string, pins []string, timeout int) (map[string]*sexp, bool) {
	q := o.query()
	for _, p := range pins {
		q += "(assert " + p + ")\n"
	}
	out := map[string]*sexp{}
	// ask in chunks within a single query (one get-value with all terms)
	r := runQuery(q, terms, timeout)
	if r.Status != "sat" {
		return nil, false
	}
	parsed := parseSexp(r.Model)
	if len(parsed) == 0 {
		return nil, false
	}
	pairs := parsed[0].list
	if len(pairs) != len(terms) {
		// cvc5 and z3 both answer in order; fall back to positional match when counts agree only
		if len(parsed) == len(terms) {
			pairs = parsed
		}
	}
	for i, p := range pairs {
		if i < len(terms) && len(p.list) == 2 {
			out[terms[i]] = p.list[1]
		}
	}
	return out, true
}

// ---------------------------------------------------------------------------
// model -> Go literal

type litBuilder struct {
	c       *FnCtx
	o       *Obligation
	vals    map[string]*sexp
	ask     []string
	skipped string
	pre     []string // statements to run before the call (slice construction)
	nvar    int
	bufs    map[string]string
	tooBig  bool
}

func (lb *litBuilder) need(term string) { lb.ask = append(lb.ask, term) }

func qual(c *FnCtx, t types.Type) string {
	return types.TypeString(t, func(p *types.Package) string {
		if p == c.pkg.Types {
			return ""
		}
		return p.Name()
	})
}

// collect lists the terms needed to rebuild v (depth-limited for interfaces).
func (lb *litBuilder) collect(v Val, t types.Type, depth int) {
	c := lb.c
	if len(lb.ask) > 800 || len(v.S) > 1200 || lb.tooBig {
		lb.tooBig = true
		return
	}
	switch v.K {
	case KInt, KBool, KPtr:
		lb.need(v.S)
	case KStruct, KArray, KTuple:
		for _, f := range v.F {
			lb.collect(f, f.T, depth)
		}
	case KSlice:
		for _, f := range v.F {
			lb.need(f.S)
		}
		if v.Elem != nil && depth > 0 {
			for k := 0; k < 8; k++ {
				ev := c.readElem(c.entry, v.Elem, v.ref(), sx("+", v.off(), strconv.Itoa(k)))
				lb.collect(ev, v.Elem, depth-1)
			}
		}
	case KIfc:
		lb.need(sx("tag", v.S))
		if depth <= 0 {
			return
		}
		for _, n := range c.w.named {
			it, ok := t.Underlying().(*types.Interface)
			if !ok || !types.Implements(n, it) {
				continue
			}
			pv := c.payload(v.S, n)
			lb.collect(pv, n, depth-1)
		}
	}
}

func (lb *litBuilder) intOf(term string) (int64, bool) {
	s, ok := lb.vals[term]
	if !ok {
		return 0, false
	}
	return s.intVal()
}

func (lb *litBuilder) build(v Val, t types.Type, depth int) string {
	c := lb.c
	tn := qual(c, t)
	switch v.K {
	case KInt:
		n, ok := lb.intOf(v.S)
		if !ok {
			n = 0
		}
		if b, isB := t.(*types.Basic); isB && (b.Kind() == types.Int || b.Kind() == types.UntypedInt) {
			return strconv.FormatInt(n, 10)
		}
		return fmt.Sprintf("%s(%d)", tn, n)
	case KBool:
		s := lb.vals[v.S]
		if s != nil && s.atom == "true" {
			return "true"
		}
		return "false"
	case KStruct:
		var parts []string
		st := t.Underlying().(*types.Struct)
		for i, f := range v.F {
			parts = append(parts, lb.build(f, st.Field(i).Type(), depth))
		}
		return tn + "{" + strings.Join(parts, ", ") + "}"
	case KArray:
		var parts []string
		at := t.Underlying().(*types.Array)
		for _, f := range v.F {
			parts = append(parts, lb.build(f, at.Elem(), depth))
		}
		return tn + "{" + strings.Join(parts, ", ") + "}"
	case KSlice:
		ref, _ := lb.intOf(v.ref())
		off, _ := lb.intOf(v.off())
		ln, _ := lb.intOf(v.ln())
		cp, _ := lb.intOf(v.cp())
		if ref == 0 {
			return tn + "(nil)"
		}
		if cp > 4096 || ln > 8 {
			// element values beyond index 3 were not requested: fill with defaults
			if cp > 1<<16 {
				lb.skipped = "model needs a very large allocation"
				return tn + "(nil)"
			}
		}
		sl := v.Elem
		et := qual(c, sl)
		if lb.bufs == nil {
			lb.bufs = map[string]string{}
		}
		bkey := fmt.Sprintf("%d/%s", ref, et)
		name, shared := lb.bufs[bkey]
		if !shared {
			lb.nvar++
			name = fmt.Sprintf("gvcBuf%d", lb.nvar)
			lb.bufs[bkey] = name
			// slices with the same reference share one backing array (asize = off+cap for each)
			lb.pre = append(lb.pre, fmt.Sprintf("%s := make([]%s, %d)", name, et, off+cp))
		}
		for k := int64(0); k < ln && k < 8; k++ {
			ev := c.readElem(c.entry, v.Elem, v.ref(), sx("+", v.off(), strconv.FormatInt(k, 10)))
			lb.pre = append(lb.pre, fmt.Sprintf("%s[%d] = %s", name, off+k, lb.build(ev, v.Elem, depth-1)))
		}
		return fmt.Sprintf("%s(%s[%d:%d:%d])", tn, name, off, off+ln, off+cp)
	case KIfc:
		tag, ok := lb.intOf(sx("tag", v.S))
		if !ok || tag == 0 {
			return "nil"
		}
		dt, ok := c.w.typeByID[int(tag)]
		if !ok || depth <= 0 {
			lb.skipped = "interface value of a foreign dynamic type or too deeply nested"
			return "nil"
		}
		pv := c.payload(v.S, dt)
		return lb.build(pv, dt, depth-1)
	case KStr:
		return `""`
	}
	lb.skipped = "value kind not rebuilt from the model"
	return "nil"
}

// ---------------------------------------------------------------------------
// spec -> Go rendering

type goRenderer struct {
	c        *FnCtx
	specUsed map[string]bool
	oldNames map[string]string // param name -> snapshot variable
	inOld    bool
	bounded  bool
	fail     string
}

func (g *goRenderer) kind(e ast.Expr) string {
	switch x := e.(type) {
	case *ast.ParenExpr:
		return g.kind(x.X)
	case *ast.BinaryExpr:
		switch x.Op {
		case token.LAND, token.LOR, token.EQL, token.NEQ, token.LSS, token.LEQ, token.GTR, token.GEQ:
			return "bool"
		}
		return "int"
	case *ast.UnaryExpr:
		if x.Op == token.NOT {
			return "bool"
		}
		return "int"
	case *ast.Ident:
		if x.Name == "true" || x.Name == "false" {
			return "bool"
		}
	case *ast.CallExpr:
		name := ""
		if id, ok := x.Fun.(*ast.Ident); ok {
			name = id.Name
		}
		switch name {
		case "implies", "iff", "forall", "exists", "forallint", "existsint", "is", "isnil", "fresh", "unchanged":
			return "bool"
		case "ite":
			return g.kind(x.Args[1])
		case "old":
			return g.kind(x.Args[0])
		}
		if sf, ok := g.c.eng.contracts.SpecFuncs[name]; ok {
			if sf.Ret == "bool" {
				return "bool"
			}
		}
	}
	return "int"
}

func (g *goRenderer) r(e ast.Expr) string {
	switch x := e.(type) {
	case *ast.ParenExpr:
		return "(" + g.r(x.X) + ")"
	case *ast.BasicLit:
		return x.Value
	case *ast.Ident:
		if g.inOld {
			if s, ok := g.oldNames[x.Name]; ok {
				return s
			}
		}
		return x.Name
	case *ast.UnaryExpr:
		return x.Op.String() + g.r(x.X)
	case *ast.BinaryExpr:
		return "(" + g.r(x.X) + " " + x.Op.String() + " " + g.r(x.Y) + ")"
	case *ast.SelectorExpr:
		return g.r(x.X) + "." + x.Sel.Name
	case *ast.IndexExpr:
		return g.r(x.X) + "[" + g.r(x.Index) + "]"
	case *ast.SliceExpr:
		lo, hi := "", ""
		if x.Low != nil {
			lo = g.r(x.Low)
		}
		if x.High != nil {
			hi = g.r(x.High)
		}
		return g.r(x.X) + "[" + lo + ":" + hi + "]"
	case *ast.TypeAssertExpr:
		return g.r(x.X) + ".(" + nodeStr(x.Type) + ")"
	case *ast.CompositeLit:
		var parts []string
		for _, el := range x.Elts {
			parts = append(parts, g.r(el))
		}
		return nodeStr(x.Type) + "{" + strings.Join(parts, ", ") + "}"
	case *ast.KeyValueExpr:
		return g.r(x.Key) + ": " + g.r(x.Value)
	case *ast.CallExpr:
		name := ""
		switch f := x.Fun.(type) {
		case *ast.Ident:
			name = f.Name
		case *ast.SelectorExpr:
			name = typeExprName(f)
		}
		a := func(i int) string { return g.r(x.Args[i]) }
		switch name {
		case "implies":
			return "(!(" + a(0) + ") || (" + a(1) + "))"
		case "iff":
			return "((" + a(0) + ") == (" + a(1) + "))"
		case "ite":
			t := g.kind(x.Args[1])
			return fmt.Sprintf("func() %s { if %s { return %s }; return %s }()", t, a(0), a(1), a(2))
		case "min":
			return "gvcMin(" + a(0) + ", " + a(1) + ")"
		case "max":
			return "gvcMax(" + a(0) + ", " + a(1) + ")"
		case "abs":
			return "gvcAbs(" + a(0) + ")"
		case "emod":
			return "gvcEmod(" + a(0) + ", " + a(1) + ")"
		case "ediv":
			return "gvcEdiv(" + a(0) + ", " + a(1) + ")"
		case "b2i":
			return "gvcB2i(" + a(0) + ")"
		case "len", "cap", "int":
			return name + "(" + a(0) + ")"
		case "old":
			saved := g.inOld
			g.inOld = true
			s := a(0)
			g.inOld = saved
			return s
		case "forall", "exists":
			id := x.Args[0].(*ast.Ident).Name
			if name == "forall" {
				return fmt.Sprintf("func() bool { for %s := %s; %s < %s; %s++ { if !(%s) { return false } }; return true }()", id, a(1), id, a(2), id, a(3))
			}
			return fmt.Sprintf("func() bool { for %s := %s; %s < %s; %s++ { if %s { return true } }; return false }()", id, a(1), id, a(2), id, a(3))
		case "forallint", "existsint":
			id := x.Args[0].(*ast.Ident).Name
			g.bounded = true
			if name == "forallint" {
				return fmt.Sprintf("func() bool { for %s := gvcLo; %s <= gvcHi; %s++ { if !(%s) { return false } }; return true }()", id, id, id, a(1))
			}
			return fmt.Sprintf("func() bool { for %s := gvcLo; %s <= gvcHi; %s++ { if %s { return true } }; return false }()", id, id, id, a(1))
		case "is":
			return fmt.Sprintf("func() bool { _, ok := interface{}(%s).(%s); return ok }()", a(0), nodeStr(x.Args[1]))
		case "isnil":
			return "gvcIsNil(" + a(0) + ")"
		case "fresh":
			return "gvcFresh(gvcInputs, " + a(0) + ")"
		case "unchanged":
			g.inOld = true
			o := a(0)
			g.inOld = false
			return "gvcSame(" + a(0) + ", " + o + ")"
		case "heapframe", "isold":
			return "true"
		case "sameslice":
			return "gvcSameSlice(" + a(0) + ", " + a(1) + ")"
		}
		if _, ok := g.c.eng.contracts.SpecFuncs[name]; ok {
			g.specUsed[name] = true
			var as []string
			for i := range x.Args {
				as = append(as, a(i))
			}
			return "sf_" + name + "(" + strings.Join(as, ", ") + ")"
		}
		// type conversion
		var as []string
		for i := range x.Args {
			as = append(as, a(i))
		}
		return name + "(" + strings.Join(as, ", ") + ")"
	}
	g.fail = "cannot render " + nodeStr(e)
	return "false"
}

func (g *goRenderer) specFuncDefs() string {
	var b strings.Builder
	done := map[string]bool{}
	for changed := true; changed; {
		changed = false
		var names []string
		for n := range g.specUsed {
			if !done[n] {
				names = append(names, n)
			}
		}
		sort.Strings(names)
		for _, n := range names {
			done[n] = true
			changed = true
			sf := g.c.eng.contracts.SpecFuncs[n]
			if sf.Body == nil {
				g.fail = "uninterpreted spec function " + n + " has no Go rendering"
				continue
			}
			var ps []string
			for i, p := range sf.Params {
				ps = append(ps, p+" "+sf.PTypes[i])
			}
			saved := g.inOld
			g.inOld = false
			body := g.r(sf.Body)
			g.inOld = saved
			fmt.Fprintf(&b, "func sf_%s(%s) %s { return %s }\n", n, strings.Join(ps, ", "), sf.Ret, body)
		}
	}
	return b.String()
}

const replayHelpers = `
func gvcMin(a, b int) int { if a < b { return a }; return b }
func gvcMax(a, b int) int { if b < a { return a }; return b }
func gvcAbs(a int) int { if a < 0 { return -a }; return a }
func gvcB2i(b bool) int { if b { return 1 }; return 0 }
func gvcEmod(a, b int) int { m := a % b; if m < 0 { if b < 0 { m -= b } else { m += b } }; return m }
func gvcEdiv(a, b int) int { return (a - gvcEmod(a, b)) / b }
func gvcIsNil(x interface{}) bool { if x == nil { return true }; v := reflect.ValueOf(x); switch v.Kind() { case reflect.Slice, reflect.Ptr, reflect.Map, reflect.Func, reflect.Interface: return v.IsNil() }; return false }
func gvcEval(name string, f func() bool) { ok := false; func() { defer func() { if r := recover(); r != nil { fmt.Printf("GVC-REPLAY oracle-panic clause=%s %v\n", name, r) } }(); ok = f() }(); fmt.Printf("GVC-REPLAY clause=%s ok=%v\n", name, ok) }
func gvcSame(a, b interface{}) bool { return reflect.DeepEqual(a, b) }
func gvcSpan(x interface{}) (uintptr, uintptr, bool) { v := reflect.ValueOf(x); if v.Kind() != reflect.Slice || v.IsNil() || v.Cap() == 0 { return 0, 0, false }; full := v.Slice3(0, v.Cap(), v.Cap()); lo := full.Pointer(); return lo, lo + uintptr(full.Len())*v.Type().Elem().Size(), true }
func gvcFresh(inputs []interface{}, x interface{}) bool { lo, hi, ok := gvcSpan(x); if !ok { return true }; for _, in := range inputs { l2, h2, ok2 := gvcSpan(in); if ok2 && lo < h2 && l2 < hi { return false } }; return true }
func gvcSnap(x interface{}) interface{} { v := reflect.ValueOf(x); if v.Kind() != reflect.Slice || v.IsNil() { return x }; full := v.Slice3(0, v.Cap(), v.Cap()); c := reflect.MakeSlice(v.Type(), full.Len(), full.Len()); reflect.Copy(c, full); return c.Interface() }
func gvcFull(x interface{}) interface{} { v := reflect.ValueOf(x); if v.Kind() != reflect.Slice || v.IsNil() { return x }; return v.Slice3(0, v.Cap(), v.Cap()).Interface() }
`

// ---------------------------------------------------------------------------

func (e *Engine) writeReplay(dir string, doc *ReplayDoc) string {
	os.MkdirAll(dir, 0o755)
	f := filepath.Join(dir, smtName(doc.Obligation)+".json")
	b, _ := json.MarshalIndent(doc, "", " ")
	os.WriteFile(f, append(b, '\n'), 0o644)
	return f
}

func trimOut(s string, n int) string {
	s = strings.TrimSpace(s)
	if len(s) > n {
		return s[:n] + "…"
	}
	return s
}

// replay tries to confirm a failed obligation on the real code.
func (e *Engine) replay(o *Obligation, dir string) (string, string) {
	doc := &ReplayDoc{Obligation: o.Name, Kind: o.Kind, Clause: o.Text, Position: o.Pos, Solver: o.Result.Solver, Status: o.Result.Status, SolverOut: trimOut(o.Result.Raw, 2000)}
	if len(o.Props) > 0 {
		doc.Property = strings.Join(o.Props, ",")
	}
	tail := " no-failing-input-found"
	if o.Kind == "bounded" && o.Result.Status == "sat" {
		// the failing table was produced by running the real Repair: it is the failing input
		doc.Note = "failing input found by running the real function inside the bounded enumeration; rerun with the command below"
		doc.Observed = []string{trimOut(o.Result.Raw, 1500)}
		file, pkg, test := "repair_bounded_test.go", "", "TestVerifBoundedRepair"
		if strings.HasPrefix(o.Func, "main.") {
			file, pkg, test = "cli_bounded_test.go", "cmd/gts/", "TestVerifBoundedCLI"
		}
		if strings.HasPrefix(o.Func, "gts.AsModifier") {
			file, test = "modifier_bounded_test.go", "TestVerifBoundedModifierText"
		}
		if strings.HasPrefix(o.Func, "gts.AsLocation") {
			file, test = "location_bounded_test.go", "TestVerifBoundedLocationText"
		}
		doc.TestCommand = "cd /repo/" + pkg + " && echo '{\"Replace\":{\"/repo/" + pkg + "zz_verif_bounded_test.go\":\"/verif/bounded/" + file + "\"}}' > /tmp/ov.json && GOFLAGS=-mod=mod go test -overlay /tmp/ov.json -vet=off -count=1 -v -run " + test + " ."
		doc.Confirmed = true
		return e.writeReplay(dir, doc), ""
	}
	if o.ctx == nil || o.Result.Status != "sat" {
		if o.Result.Status != "sat" {
			doc.Note = "the solver gave no model (" + o.Result.Status + "); the obligation discharged on the unchanged tree and no longer does"
		}
		return e.writeReplay(dir, doc), tail
	}
	t := e.targets[o.Func]
	if t == nil || t.decl == nil {
		doc.Note = "counterexample replay is implemented for declared functions only"
		return e.writeReplay(dir, doc), tail
	}
	inputs, src, note := e.buildReplayTest(o, t, nil)
	doc.Inputs = inputs
	doc.Note = note
	if src == "" {
		return e.writeReplay(dir, doc), tail
	}
	doc.TestSource = src
	out, cmdline := e.runReplayTest(t, src)
	doc.TestCommand = cmdline
	confirmed := false
	for _, l := range strings.Split(out, "\n") {
		if strings.HasPrefix(l, "GVC-REPLAY") {
			doc.Observed = append(doc.Observed, trimOut(strings.TrimSpace(strings.TrimPrefix(l, "GVC-REPLAY")), 400))
			if strings.Contains(l, "panic=") || strings.Contains(l, "ok=false") {
				confirmed = true
			}
		}
	}
	if len(doc.Observed) == 0 {
		doc.Note += " replay produced no output: " + trimOut(out, 600)
	}
	doc.Confirmed = confirmed
	if confirmed {
		tail = ""
	}
	return e.writeReplay(dir, doc), tail
}

// buildReplayTest returns (inputs, test source, note). If lits is non-nil it gives the
// argument literals directly (witness replay) instead of reading the model.
func (e *Engine) buildReplayTest(o *Obligation, t *Target, lits map[string]string) (map[string]string, string, string) {
	c := o.ctx
	fs := t.spec
	sig := t.sig
	type prm struct {
		name string
		v    Val
		t    types.Type
	}
	var prms []prm
	if sig.Recv() != nil {
		n := sig.Recv().Name()
		if fs != nil && fs.Recv != "" {
			n = fs.Recv
		}
		prms = append(prms, prm{n, c.entry.env[sig.Recv()], sig.Recv().Type()})
	}
	for i := 0; i < sig.Params().Len(); i++ {
		p := sig.Params().At(i)
		n := p.Name()
		if fs != nil && i < len(fs.Params) {
			n = fs.Params[i]
		}
		prms = append(prms, prm{n, c.entry.env[p], p.Type()})
	}
	inputs := map[string]string{}
	var pre []string
	if lits == nil {
		lb := &litBuilder{c: c, o: o}
		n0 := len(c.cmds)
		for _, p := range prms {
			lb.collect(p.v, p.t, 2)
		}
		if lb.tooBig {
			c.cmds = c.cmds[:n0]
			return nil, "", "the arguments are too large a structure to rebuild from the model (an interface with many implementations or deeply nested slices)"
		}
		extra := c.cmds[n0:]
		_ = extra
		// dedupe
		seen := map[string]bool{}
		var ask []string
		for _, a := range lb.ask {
			if !seen[a] {
				seen[a] = true
				ask = append(ask, a)
			}
		}
		// prefer a small model: bound the dimensions of slice parameters first
		var small []string
		var bound func(v Val)
		bound = func(v Val) {
			switch v.K {
			case KSlice:
				small = append(small, sx("<=", v.ln(), "6"), sx("<=", v.cp(), "8"), sx("<=", v.off(), "3"))
			case KStruct, KArray:
				for _, f := range v.F {
					bound(f)
				}
			}
		}
		for _, p := range prms {
			bound(p.v)
		}
		// the collect step may have declared observers after o.NCmds: extend the prefix
		saved := o.NCmds
		if len(c.cmds) > n0 {
			// declarations only (no assertions are added by payload/readElem except type facts)
			o2 := *o
			o2.ctx = &FnCtx{cmds: append(append([]string(nil), c.cmds[:o.NCmds]...), c.cmds[n0:]...)}
			o2.NCmds = len(o2.ctx.cmds)
			vals, ok := getValues(&o2, ask, small, 10)
			if !ok {
				vals, ok = getValues(&o2, ask, nil, 20)
			}
			o.NCmds = saved
			if !ok {
				return nil, "", "could not re-obtain a model for value extraction"
			}
			lb.vals = vals
		} else {
			vals, ok := getValues(o, ask, small, 10)
			if !ok {
				vals, ok = getValues(o, ask, nil, 20)
			}
			if !ok {
				return nil, "", "could not re-obtain a model for value extraction"
			}
			lb.vals = vals
		}
		for _, p := range prms {
			inputs[p.name] = lb.build(p.v, p.t, 2)
		}
		pre = lb.pre
		if lb.skipped != "" {
			return inputs, "", "model not replayable: " + lb.skipped
		}
	} else {
		for _, p := range prms {
			if l, ok := lits[p.name]; ok {
				inputs[p.name] = l
			} else {
				return nil, "", "witness lacks argument " + p.name
			}
		}
	}
	// render
	g := &goRenderer{c: c, specUsed: map[string]bool{}, oldNames: map[string]string{}}
	var b strings.Builder
	pkgName := t.pkg.Name
	fmt.Fprintf(&b, "package %s\n\nimport (\n\t\"fmt\"\n\t\"reflect\"\n\t\"testing\"\n", pkgName)
	imports := map[string]string{}
	body := &strings.Builder{}
	for _, l := range pre {
		fmt.Fprintf(body, "\t%s\n", l)
	}
	var argNames []string
	var snap []string
	for _, p := range prms {
		fmt.Fprintf(body, "\tvar %s %s = %s\n\t_ = %s\n", p.name, qual(c, p.t), inputs[p.name], p.name)
		if _, ok := p.t.Underlying().(*types.Slice); ok {
			g.oldNames[p.name] = "gvcOld_" + p.name
			fmt.Fprintf(body, "\tgvcOld_%s := gvcSnap(%s).(%s)[:len(%s)]\n\t_ = gvcOld_%s\n", p.name, p.name, qual(c, p.t), p.name, p.name)
			snap = append(snap, p.name)
		}
		if pt, ok := p.t.Underlying().(*types.Pointer); ok {
			if _, isStruct := pt.Elem().Underlying().(*types.Struct); isStruct {
				g.oldNames[p.name] = "(&gvcOld_" + p.name + ")"
				fmt.Fprintf(body, "\tvar gvcOld_%s %s\n\tif %s != nil { gvcOld_%s = *%s }\n", p.name, qual(c, pt.Elem()), p.name, p.name, p.name)
			}
		}
		argNames = append(argNames, p.name)
	}
	callee := t.decl.Name.Name
	args := argNames
	if sig.Recv() != nil {
		callee = argNames[0] + "." + callee
		args = argNames[1:]
	}
	if sig.Variadic() && len(args) > 0 {
		args = append(append([]string(nil), args[:len(args)-1]...), args[len(args)-1]+"...")
	}
	var resNames []string
	for i := 0; i < sig.Results().Len(); i++ {
		n := fmt.Sprintf("gvcRes%d", i)
		if fs != nil && i < len(fs.Results) && fs.Results[i] != "_" {
			n = fs.Results[i]
		}
		resNames = append(resNames, n)
	}
	for _, s := range snap {
		fmt.Fprintf(body, "\tgvcFull_%s := gvcSnap(%s)\n", s, s)
	}
	fmt.Fprintf(body, "\tgvcInputs := []interface{}{")
	for _, s := range snap {
		fmt.Fprintf(body, "%s, ", s)
	}
	fmt.Fprintf(body, "}\n\t_ = gvcInputs\n")
	if len(resNames) > 0 {
		fmt.Fprintf(body, "\t%s := %s(%s)\n", strings.Join(resNames, ", "), callee, strings.Join(args, ", "))
		for _, r := range resNames {
			fmt.Fprintf(body, "\t_ = %s\n\tfmt.Printf(\"GVC-REPLAY result %s=%%#v\\n\", %s)\n", r, r, r)
		}
	} else {
		fmt.Fprintf(body, "\t%s(%s)\n", callee, strings.Join(args, ", "))
	}
	for _, s := range snap {
		fmt.Fprintf(body, "\tgvcEval(\"frame:%s\", func() bool { return gvcSame(gvcFull(%s), gvcFull_%s) })\n", s, s, s)
	}
	if fs != nil {
		for i, en := range fs.Ensures {
			name := fmt.Sprintf("post#%d", i+1)
			if en.Label != "" {
				name = "post:" + en.Label
			}
			src := g.r(en.Expr)
			if g.fail != "" {
				fmt.Fprintf(body, "\t// clause %s not rendered: %s\n", name, g.fail)
				g.fail = ""
				continue
			}
			fmt.Fprintf(body, "\tgvcEval(%q, func() bool { return %s })\n", name, src)
		}
	}
	defs := g.specFuncDefs()
	for _, s := range []string{body.String(), defs} {
		for _, p := range c.pkg.Types.Imports() {
			if regexp.MustCompile(`\b` + p.Name() + `\.`).MatchString(s) {
				imports[p.Path()] = p.Name()
			}
		}
	}
	delete(imports, "fmt")
	delete(imports, "reflect")
	delete(imports, "testing")
	var ips []string
	for p := range imports {
		ips = append(ips, p)
	}
	sort.Strings(ips)
	for _, p := range ips {
		fmt.Fprintf(&b, "\t%q\n", p)
	}
	b.WriteString(")\n\nconst gvcLo, gvcHi = -4, 48\n")
	b.WriteString(replayHelpers)
	b.WriteString(defs)
	b.WriteString("\nfunc TestGvcReplay(gvcT *testing.T) {\n\tdefer func() {\n\t\tif r := recover(); r != nil {\n\t\t\tfmt.Printf(\"GVC-REPLAY panic=%q\\n\", fmt.Sprint(r))\n\t\t}\n\t}()\n")
	b.WriteString(body.String())
	b.WriteString("}\n")
	note := ""
	if g.bounded {
		note = "unbounded quantifiers in the contract are evaluated over [-4,48] in the replay"
	}
	return inputs, b.String(), note
}

func (e *Engine) runReplayTest(t *Target, src string) (string, string) {
	dir, err := os.MkdirTemp(scratchDir, "replay")
	if err != nil {
		return "", ""
	}
	defer os.RemoveAll(dir)
	testFile := filepath.Join(dir, "zz_gvc_replay_test.go")
	os.WriteFile(testFile, []byte(src), 0o644)
	pkgDir := filepath.Dir(t.pkg.Fset.Position(t.decl.Pos()).Filename)
	ov := map[string]map[string]string{"Replace": {filepath.Join(pkgDir, "zz_gvc_replay_test.go"): testFile}}
	ob, _ := json.Marshal(ov)
	ovFile := filepath.Join(dir, "overlay.json")
	os.WriteFile(ovFile, ob, 0o644)
	args := []string{"test", "-overlay", ovFile, "-tags", "verif", "-vet=off", "-count=1", "-timeout", "60s", "-run", "^TestGvcReplay$", "-v", "."}
	cmd := exec.Command("go", args...)
	cmd.Dir = pkgDir
	cmd.Env = append(os.Environ(), "GOFLAGS=-mod=mod", "GOPROXY=off", "GOSUMDB=off", "GOTOOLCHAIN=local")
	done := make(chan struct{})
	var out []byte
	go func() {
		out, _ = cmd.CombinedOutput()
		close(done)
	}()
	select {
	case <-done:
	case <-time.After(120 * time.Second):
		if cmd.Process != nil {
			cmd.Process.Kill()
		}
		<-done
	}
	return string(out), "cd " + pkgDir + " && go " + strings.Join(args, " ") + "   # overlay maps zz_gvc_replay_test.go to the test_source above"
}

// replayWitness runs the recorded witness of a known finding on the real code.
func replayWitness(e *Engine, o *Obligation, kf *KnownFinding, dir string) string {
	t := e.targets[o.Func]
	if t == nil || t.decl == nil || kf.Witness == nil {
		return "witness not replayed"
	}
	lits := map[string]string{}
	for k, v := range kf.Witness {
		lits[k] = fmt.Sprint(v)
	}
	_, src, _ := e.buildReplayTest(o, t, lits)
	if src == "" {
		return "witness not replayable"
	}
	out, _ := e.runReplayTest(t, src)
	for _, l := range strings.Split(out, "\n") {
		if strings.HasPrefix(l, "GVC-REPLAY") && (strings.Contains(l, "panic=") || strings.Contains(l, "ok=false")) {
			return "witness still fails on the real code: " + strings.TrimSpace(strings.TrimPrefix(l, "GVC-REPLAY"))
		}
	}
	if strings.Contains(out, "GVC-REPLAY") {
		return "witness no longer fails on the real code"
	}
	return "witness replay did not run: " + trimOut(out, 200)
}
