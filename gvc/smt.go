package main

// SMT-LIB helpers and the solver runner (racing z3-new, cvc5 and z3 4.8).

import (
	"bytes"
	"context"
	"fmt"
	"os"
	"os/exec"
	"path/filepath"
	"strings"
	"sync"
	"syscall"
	"time"
)

func sx(op string, args ...string) string {
	return "(" + op + " " + strings.Join(args, " ") + ")"
}

func sAnd(args ...string) string {
	var xs []string
	for _, a := range args {
		if a == "true" {
			continue
		}
		if a == "false" {
			return "false"
		}
		xs = append(xs, a)
	}
	switch len(xs) {
	case 0:
		return "true"
	case 1:
		return xs[0]
	}
	return sx("and", xs...)
}

func sOr(args ...string) string {
	var xs []string
	for _, a := range args {
		if a == "false" {
			continue
		}
		if a == "true" {
			return "true"
		}
		xs = append(xs, a)
	}
	switch len(xs) {
	case 0:
		return "false"
	case 1:
		return xs[0]
	}
	return sx("or", xs...)
}

func sNot(a string) string {
	switch a {
	case "true":
		return "false"
	case "false":
		return "true"
	}
	if strings.HasPrefix(a, "(not ") && strings.HasSuffix(a, ")") {
		inner := a[5 : len(a)-1]
		if balanced(inner) {
			return inner
		}
	}
	return sx("not", a)
}

func balanced(s string) bool {
	d := 0
	for i, c := range s {
		switch c {
		case '(':
			d++
		case ')':
			d--
			if d == 0 && i != len(s)-1 {
				return false
			}
			if d < 0 {
				return false
			}
		case ' ':
			if d == 0 {
				return false
			}
		}
	}
	return d == 0
}

func sImp(a, b string) string {
	if a == "true" {
		return b
	}
	if b == "true" {
		return "true"
	}
	return sx("=>", a, b)
}

func sIte(c, a, b string) string {
	if a == b {
		return a
	}
	if c == "true" {
		return a
	}
	if c == "false" {
		return b
	}
	return sx("ite", c, a, b)
}

func sInt(n int64) string {
	if n < 0 {
		return fmt.Sprintf("(- %d)", -n)
	}
	return fmt.Sprintf("%d", n)
}

// Go's truncated division and remainder in terms of SMT's Euclidean div/mod.
const smtPrelude = `(define-fun tdiv ((a Int) (b Int)) Int
  (ite (>= a 0) (ite (> b 0) (div a b) (- (div a (- b))))
                (ite (> b 0) (- (div (- a) b)) (div (- a) (- b)))))
(define-fun tmod ((a Int) (b Int)) Int (- a (* b (tdiv a b))))
(define-fun imin ((a Int) (b Int)) Int (ite (< a b) a b))
(define-fun imax ((a Int) (b Int)) Int (ite (< b a) a b))
(define-fun iabs ((a Int)) Int (ite (< a 0) (- a) a))
(declare-sort Ifc 0)
(declare-sort Str 0)
(declare-sort Fn 0)
(declare-sort MapV 0)
(declare-fun tag (Ifc) Int)
(declare-fun slen (Str) Int)
(declare-fun sat (Str Int) Int)
(declare-fun asize (Int) Int)
(declare-const nilIfc Ifc)
(assert (= (tag nilIfc) 0))
(assert (forall ((s Str)) (! (>= (slen s) 0) :pattern ((slen s)))))
`

type SolverResult struct {
	Status string // unsat | sat | unknown | timeout | error
	Solver string
	Time   float64
	Model  string
	Raw    string
}

type solverDef struct {
	name string
	args func(file string, timeoutS int) []string
	head string
}

var solvers = []solverDef{
	{"z3-new", func(f string, t int) []string { return []string{"z3-new", fmt.Sprintf("-T:%d", t), f} }, ""},
	{"cvc5", func(f string, t int) []string {
		return []string{"cvc5", fmt.Sprintf("--tlimit=%d", t*1000), "--produce-models", f}
	}, "(set-logic ALL)\n"},
	{"z3", func(f string, t int) []string { return []string{"z3", fmt.Sprintf("-T:%d", t), f} }, ""},
}

var scratchDir string

func initScratch() {
	d, err := os.MkdirTemp("", "gvc-")
	if err != nil {
		panic(err)
	}
	scratchDir = d
}

func cleanupScratch() {
	if scratchDir != "" {
		os.RemoveAll(scratchDir)
	}
}

var queryCounter int
var queryMu sync.Mutex

// runQuery races the solvers on a query body (without check-sat). getValues lists
// terms to ask for when the answer is sat.
func runQuery(body string, getValues []string, timeoutS int) SolverResult {
	queryMu.Lock()
	queryCounter++
	id := queryCounter
	queryMu.Unlock()

	tail := "(check-sat)\n"
	if len(getValues) > 0 {
		tail += "(get-value (" + strings.Join(getValues, " ") + "))\n"
	}

	ctx, cancel := context.WithCancel(context.Background())
	defer cancel()
	resCh := make(chan SolverResult, len(solvers))
	run := func(s solverDef) {
		file := filepath.Join(scratchDir, fmt.Sprintf("q%d_%s.smt2", id, s.name))
		content := s.head + body + tail
		if s.name == "cvc5" {
			content = "(set-option :produce-models true)\n" + content
		}
		os.WriteFile(file, []byte(content), 0o644)
		defer os.Remove(file)
		// The budget is CPU time (RLIMIT_CPU through `ulimit -t`), so that a verdict does not
		// depend on how busy the machine is; the solver's own wall-clock limit is only a
		// backstop (8x the budget, at least 60 s).
		wall := timeoutS * 8
		if wall < 60 {
			wall = 60
		}
		a := s.args(file, wall)
		cmd := exec.CommandContext(ctx, "sh", append([]string{"-c", fmt.Sprintf(`ulimit -t %d; exec "$0" "$@"`, timeoutS)}, a...)...)
		var out bytes.Buffer
		cmd.Stdout = &out
		cmd.Stderr = &out
		t0 := time.Now()
		cmd.Run()
		dt := time.Since(t0).Seconds()
		raw := out.String()
		first := strings.TrimSpace(strings.SplitN(raw, "\n", 2)[0])
		r := SolverResult{Solver: s.name, Time: dt, Raw: raw}
		switch first {
		case "unsat":
			r.Status = "unsat"
		case "sat":
			r.Status = "sat"
			if i := strings.Index(raw, "\n"); i >= 0 {
				r.Model = strings.TrimSpace(raw[i+1:])
			}
		case "unknown":
			r.Status = "unknown"
		case "timeout":
			r.Status = "timeout"
		default:
			if ctx.Err() != nil {
				r.Status = "cancelled"
			} else if ws, ok := sysStatus(cmd); ok && ws.Signaled() {
				// killed by the CPU-time limit
				r.Status = "timeout"
			} else if strings.Contains(raw, "timeout") || strings.Contains(raw, "interrupted") {
				r.Status = "timeout"
			} else {
				r.Status = "error"
			}
		}
		resCh <- r
	}
	// stage 1: z3-new and cvc5 in parallel; stage 2: old z3.
	stage := func(ss []solverDef) (SolverResult, bool) {
		for _, s := range ss {
			go run(s)
		}
		var last SolverResult
		for range ss {
			r := <-resCh
			if r.Status == "unsat" || r.Status == "sat" {
				cancel()
				return r, true
			}
			if last.Status == "" || last.Status == "cancelled" || (r.Status == "unknown" && last.Status != "unknown") {
				last = r
			}
		}
		return last, false
	}
	r, _ := stage(solvers)
	return r
}

func sysStatus(cmd *exec.Cmd) (syscall.WaitStatus, bool) {
	if cmd.ProcessState == nil {
		return 0, false
	}
	ws, ok := cmd.ProcessState.Sys().(syscall.WaitStatus)
	return ws, ok
}
