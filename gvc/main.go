package main

import (
	"fmt"
	"golang.org/x/tools/go/packages"
)

func main() {
	cfg := &packages.Config{Mode: packages.LoadAllSyntax, Dir: "/repo", BuildFlags: []string{"-tags=verif"}}
	pkgs, err := packages.Load(cfg, "./...")
	fmt.Println(len(pkgs), err)
	for _, p := range pkgs { fmt.Println(p.PkgPath, len(p.Syntax), len(p.Errors)) }
}
