package main

import (
	"flag"
	"fmt"
	"os"
	"sort"
	"strings"
)

func main() {
	if len(os.Args) < 2 {
		fmt.Println("usage: gvc verify|check ...")
		os.Exit(2)
	}
	initScratch()
	code := 0
	func() {
		defer cleanupScratch()
		switch os.Args[1] {
		case "verify":
			code = cmdVerify(os.Args[2:])
		case "check":
			code = cmdCheck(os.Args[2:])
		default:
			fmt.Println("unknown command")
			code = 2
		}
	}()
	os.Exit(code)
}

// verify: developer command — verify named functions and print every obligation.
func cmdVerify(args []string) int {
	fl := flag.NewFlagSet("verify", flag.ExitOnError)
	repo := fl.String("repo", "/repo", "repository")
	fn := fl.String("func", "", "comma-separated function keys (prefix match with *)")
	dump := fl.String("dump", "", "directory to dump failed queries")
	verbose := fl.Bool("v", false, "verbose")
	timeout := fl.Int("timeout", 10, "solver timeout (s)")
	fl.Parse(args)
	eng, err := loadEngine(*repo)
	if err != nil {
		fmt.Println("load error:", err)
		return 2
	}
	eng.timeoutS = *timeout
	var keys []string
	for k, t := range eng.targets {
		for _, pat := range strings.Split(*fn, ",") {
			if pat == "" {
				continue
			}
			if k == pat || (strings.HasSuffix(pat, "*") && strings.HasPrefix(k, strings.TrimSuffix(pat, "*")) && t.spec != nil) {
				keys = append(keys, k)
			}
		}
	}
	if *fn == "all" {
		for k, t := range eng.targets {
			if t.spec != nil {
				keys = append(keys, k)
			}
		}
	}
	sort.Strings(keys)
	bad := 0
	for _, k := range keys {
		res := eng.verifyFunc(eng.targets[k])
		eng.discharge(res.Obls, 12)
		nd := 0
		for _, o := range res.Obls {
			if o.Decided == "discharged" {
				nd++
			}
		}
		fmt.Printf("== %s: %d/%d discharged (gen %.2fs)\n", k, nd, len(res.Obls), res.GenTime)
		for _, u := range res.Unsupported {
			fmt.Println("   UNSUPPORTED:", u)
			bad++
		}
		if *verbose {
			for _, u := range res.Unmodelled {
				fmt.Println("   unmodelled:", u)
			}
			for _, u := range res.Trusted {
				fmt.Println("   trusted:", u)
			}
		}
		for _, o := range res.Obls {
			if o.Decided == "discharged" && o.Result.Time > 1.5 && !*verbose {
				fmt.Printf("   slow: %s %.1fs (%s)\n", o.Name, o.Result.Time, o.Result.Solver)
			}
			if o.Decided != "discharged" || *verbose {
				fmt.Printf("   [%s] %s (%s, %s %.2fs) %s  @%s\n", o.Decided, o.Name, o.Result.Status, o.Result.Solver, o.Result.Time, o.Text, o.Pos)
				if o.Decided != "discharged" {
					bad++
					if *dump != "" {
						fmt.Println("      query:", eng.dumpQuery(o, *dump))
					}
					if o.Result.Status == "error" {
						fmt.Println("      ", strings.TrimSpace(o.Result.Raw))
					}
				}
			}
		}
	}
	if bad > 0 {
		return 1
	}
	return 0
}
