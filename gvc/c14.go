package main

// C14 (cache-key completeness) as a reads-frame obligation, decided on the typed AST without
// SMT: in every command function that calls TryCache, each value that comes from a flag or
// positional argument and is read after the TryCache call must be part of the payload that
// is hashed into the cache key (directly, or through values computed only from payload
// members), or be one of the inputs that are hashed or irrelevant by construction.

import (
	"fmt"
	"go/ast"
	"go/token"
	"go/types"
	"sort"
	"strings"
)

type c14Result struct {
	Func        string
	Obligations []*Obligation
}

// identsIn lists variable objects mentioned in an expression.
func identsIn(info *types.Info, n ast.Node) []types.Object {
	var out []types.Object
	seen := map[types.Object]bool{}
	ast.Inspect(n, func(m ast.Node) bool {
		if id, ok := m.(*ast.Ident); ok {
			if v, ok := info.ObjectOf(id).(*types.Var); ok && !v.IsField() && !seen[v] {
				seen[v] = true
				out = append(out, v)
			}
		}
		return true
	})
	return out
}

func (e *Engine) checkC14() []*Obligation {
	var obls []*Obligation
	var pkg *pkgT
	for _, p := range e.pkgs {
		if p.Name == "main" {
			pkg = p
		}
	}
	if pkg == nil {
		return nil
	}
	info := pkg.TypesInfo
	var keys []string
	decls := map[string]*ast.FuncDecl{}
	for _, f := range pkg.Syntax {
		for _, d := range f.Decls {
			fd, ok := d.(*ast.FuncDecl)
			if !ok || fd.Body == nil || fd.Recv != nil {
				continue
			}
			callsTry := false
			ast.Inspect(fd.Body, func(n ast.Node) bool {
				if call, ok := n.(*ast.CallExpr); ok {
					if se, ok := call.Fun.(*ast.SelectorExpr); ok && se.Sel.Name == "TryCache" {
						callsTry = true
					}
				}
				return true
			})
			if callsTry {
				keys = append(keys, fd.Name.Name)
				decls[fd.Name.Name] = fd
			}
		}
	}
	// the payload encoding: encodePayload must hand its argument to json.Marshal as it is (JSON
	// keeps names, values, list structure and types apart; a hand-made rendering such as
	// fmt.Sprint does not: ["a b"] and ["a","b"] would collide)
	for _, f := range pkg.Syntax {
		for _, d := range f.Decls {
			fd, ok := d.(*ast.FuncDecl)
			if !ok || fd.Body == nil || fd.Name.Name != "encodePayload" || fd.Type.Params == nil || len(fd.Type.Params.List) != 1 || len(fd.Type.Params.List[0].Names) != 1 {
				continue
			}
			param := info.ObjectOf(fd.Type.Params.List[0].Names[0])
			direct, other := false, ""
			ast.Inspect(fd.Body, func(n ast.Node) bool {
				call, ok := n.(*ast.CallExpr)
				if !ok {
					return true
				}
				isMarshal := false
				if se, ok := call.Fun.(*ast.SelectorExpr); ok {
					if id, ok := se.X.(*ast.Ident); ok && id.Name == "json" && se.Sel.Name == "Marshal" {
						isMarshal = true
					}
				}
				for _, a := range call.Args {
					for _, o := range identsIn(info, a) {
						if o != param {
							continue
						}
						if id, ok := ast.Unparen(a).(*ast.Ident); ok && isMarshal && info.ObjectOf(id) == param && len(call.Args) == 1 {
							direct = true
						} else {
							other = posOf(pkg, call.Pos())
						}
					}
				}
				return true
			})
			// any other use of the parameter (ranging over it, indexing it) also counts as processing
			uses := 0
			ast.Inspect(fd.Body, func(n ast.Node) bool {
				if id, ok := n.(*ast.Ident); ok && info.ObjectOf(id) == param {
					uses++
				}
				return true
			})
			o := &Obligation{Name: "main.encodePayload/marshals-argument-directly", Kind: "reads-frame", Func: "main.encodePayload", Pos: posOf(pkg, fd.Pos()),
				Text:  "encodePayload passes the tuple list to json.Marshal unchanged and does nothing else with it",
				Props: []string{"C14"}}
			if direct && other == "" && uses == 1 {
				o.Decided = "discharged"
				o.Result = SolverResult{Status: "unsat", Solver: "def-use"}
			} else {
				o.Decided = "failed"
				o.Result = SolverResult{Status: "sat", Solver: "def-use", Raw: fmt.Sprintf("the payload list is used %d time(s) in encodePayload; json.Marshal(list) directly: %v; other call with it at %q", uses, direct, other)}
			}
			obls = append(obls, o)
		}
	}
	sort.Strings(keys)
	for _, name := range keys {
		fd := decls[name]
		fname := "main." + name
		// 1. option variables: assigned from a method call on the flag sets (pos.X / opt.X)
		optVars := map[types.Object]string{}
		flagSets := map[types.Object]bool{}
		derived := map[types.Object][]types.Object{} // var -> option/derived vars it was computed from
		var tryPos token.Pos
		var payload []types.Object
		allowed := map[string]bool{}
		ast.Inspect(fd.Body, func(n ast.Node) bool {
			switch s := n.(type) {
			case *ast.AssignStmt:
				// pos, opt := flags.Flags()
				if len(s.Rhs) == 1 {
					if call, ok := s.Rhs[0].(*ast.CallExpr); ok {
						if se, ok := call.Fun.(*ast.SelectorExpr); ok {
							if id, ok := se.X.(*ast.Ident); ok && id.Name == "flags" && se.Sel.Name == "Flags" {
								for _, l := range s.Lhs {
									if lid, ok := l.(*ast.Ident); ok {
										if o := info.ObjectOf(lid); o != nil {
											flagSets[o] = true
										}
									}
								}
								return true
							}
							if id, ok := se.X.(*ast.Ident); ok && flagSets[info.ObjectOf(id)] {
								for _, l := range s.Lhs {
									if lid, ok := l.(*ast.Ident); ok {
										if o := info.ObjectOf(lid); o != nil {
											optVars[o] = se.Sel.Name
										}
									}
								}
								return true
							}
						}
					}
				}
			case *ast.CallExpr:
				if se, ok := s.Fun.(*ast.SelectorExpr); ok && se.Sel.Name == "TryCache" && tryPos == token.NoPos {
					tryPos = s.Pos()
				}
				if id, ok := s.Fun.(*ast.Ident); ok && id.Name == "encodePayload" && len(s.Args) == 1 {
					payload = append(payload, identsIn(info, s.Args[0])...)
				}
			}
			return true
		})
		if tryPos == token.NoPos {
			continue
		}
		// 0. payload values are stable: a value hashed into the key must be the value the command
		// computes with.  Every in-place change of a payload variable (assignment through it, or
		// passing its slice/pointer to a function that may write it, e.g. sort.Strings) has to
		// come before every other use of that variable; otherwise what is hashed differs from
		// what was used (or will be used) to produce the output.
		{
			seenP := map[types.Object]bool{}
			for _, o := range payload {
				if seenP[o] || flagSets[o] {
					continue
				}
				seenP[o] = true
				if _, isOpt := optVars[o]; !isOpt {
					continue
				}
				mentions := func(e ast.Expr) bool {
					for _, x := range identsIn(info, e) {
						if x == o {
							return true
						}
					}
					return false
				}
				isRef := func(e ast.Expr) bool { // o or *o, of a type through which a callee can write
					e = ast.Unparen(e)
					if st, ok := e.(*ast.StarExpr); ok {
						if id, ok := ast.Unparen(st.X).(*ast.Ident); ok && info.ObjectOf(id) == o {
							switch info.TypeOf(e).Underlying().(type) {
							case *types.Slice, *types.Map, *types.Pointer:
								return true
							}
						}
						return false
					}
					if id, ok := e.(*ast.Ident); ok && info.ObjectOf(id) == o {
						return true // the pointer itself
					}
					return false
				}
				var muts []ast.Node
				var defPos token.Pos
				ast.Inspect(fd.Body, func(n ast.Node) bool {
					switch x := n.(type) {
					case *ast.AssignStmt:
						for _, l := range x.Lhs {
							if id, ok := l.(*ast.Ident); ok && info.ObjectOf(id) == o {
								if defPos == token.NoPos {
									defPos = x.Pos()
								} else {
									muts = append(muts, x)
								}
							} else if mentions(l) {
								if _, plain := l.(*ast.Ident); !plain {
									// *o = v, (*o)[i] = v
									if se, ok := l.(*ast.StarExpr); ok && mentions(se.X) {
										muts = append(muts, x)
									} else if ie, ok := l.(*ast.IndexExpr); ok && mentions(ie.X) {
										muts = append(muts, x)
									}
								}
							}
						}
					case *ast.CallExpr:
						name := ""
						switch f := x.Fun.(type) {
						case *ast.Ident:
							name = f.Name
						case *ast.SelectorExpr:
							if id, ok := f.X.(*ast.Ident); ok {
								name = id.Name + "." + f.Sel.Name
							}
						}
						switch name {
						case "len", "cap", "append", "strings.Join", "encodePayload", "fmt.Sprintf", "fmt.Errorf", "fmt.Sprint":
							return true
						}
						for _, a := range x.Args {
							if isRef(a) {
								muts = append(muts, x)
							}
						}
					}
					return true
				})
				bad := ""
				for _, m := range muts {
					// conditions of the if statements guarding the change only decide whether it happens
					guards := map[ast.Node]bool{}
					ast.Inspect(fd.Body, func(n ast.Node) bool {
						if is, ok := n.(*ast.IfStmt); ok && is.Body.Pos() <= m.Pos() && m.End() <= is.Body.End() {
							guards[is.Cond] = true
						}
						return true
					})
					ast.Inspect(fd.Body, func(n ast.Node) bool {
						if n == nil || bad != "" {
							return false
						}
						if n == m || guards[n] {
							return false
						}
						if id, ok := n.(*ast.Ident); ok && info.ObjectOf(id) == o && id.Pos() < m.Pos() && id.Pos() > defPos {
							// a read before the in-place change (the defining statement itself excluded)
							if defStmtEnd(fd, defPos) < id.Pos() {
								bad = fmt.Sprintf("%s is used at %s and then changed in place at %s before/after it is hashed into the key", o.Name(), posOf(pkg, id.Pos()), posOf(pkg, m.Pos()))
							}
						}
						return true
					})
				}
				ob := &Obligation{Name: fname + "/payload-value-stable:" + o.Name(), Kind: "reads-frame", Func: fname, Pos: posOf(pkg, tryPos),
					Text:  fmt.Sprintf("the payload value %s is hashed in the state the command uses it in (%d in-place change(s), all before any use)", o.Name(), len(muts)),
					Props: []string{"C14"}}
				if bad == "" {
					ob.Decided = "discharged"
					ob.Result = SolverResult{Status: "unsat", Solver: "def-use"}
				} else {
					ob.Decided = "failed"
					ob.Result = SolverResult{Status: "sat", Solver: "def-use", Raw: bad}
				}
				obls = append(obls, ob)
			}
		}
		// 0b. secondary inputs are digested raw: a file opened by the command (guest, host, query,
		// feature table) may only be consumed through attach(h, f), which feeds every byte read
		// into the hash; parsing it directly and hashing some projection of the parsed value
		// leaves the rest of what was parsed (features, qualifiers) out of the key.
		{
			opened := map[types.Object]token.Pos{}
			ast.Inspect(fd.Body, func(n ast.Node) bool {
				if as, ok := n.(*ast.AssignStmt); ok && len(as.Rhs) == 1 {
					if call, ok := as.Rhs[0].(*ast.CallExpr); ok {
						if se, ok := call.Fun.(*ast.SelectorExpr); ok {
							if id, ok := se.X.(*ast.Ident); ok && id.Name == "os" && se.Sel.Name == "Open" && len(as.Lhs) >= 1 {
								if lid, ok := as.Lhs[0].(*ast.Ident); ok {
									if o := info.ObjectOf(lid); o != nil {
										opened[o] = as.Pos()
									}
								}
							}
						}
					}
				}
				return true
			})
			var fobjs []types.Object
			for o := range opened {
				fobjs = append(fobjs, o)
			}
			sort.Slice(fobjs, func(i, j int) bool { return fobjs[i].Pos() < fobjs[j].Pos() })
			for _, fo := range fobjs {
				bad := ""
				okUse := map[*ast.Ident]bool{}
				ast.Inspect(fd.Body, func(n ast.Node) bool {
					switch x := n.(type) {
					case *ast.CallExpr:
						if id, ok := x.Fun.(*ast.Ident); ok && id.Name == "attach" && len(x.Args) == 2 {
							if aid, ok := x.Args[1].(*ast.Ident); ok && info.ObjectOf(aid) == fo {
								okUse[aid] = true
							}
						}
						if se, ok := x.Fun.(*ast.SelectorExpr); ok && se.Sel.Name == "Close" {
							if rid, ok := se.X.(*ast.Ident); ok && info.ObjectOf(rid) == fo {
								okUse[rid] = true
							}
						}
					case *ast.AssignStmt:
						if x.Pos() == opened[fo] {
							for _, l := range x.Lhs {
								if lid, ok := l.(*ast.Ident); ok {
									okUse[lid] = true
								}
							}
						}
					}
					return true
				})
				ast.Inspect(fd.Body, func(n ast.Node) bool {
					if id, ok := n.(*ast.Ident); ok && info.ObjectOf(id) == fo && !okUse[id] && bad == "" {
						bad = fmt.Sprintf("the file %s opened at %s is used at %s other than through attach(h, %s)", fo.Name(), posOf(pkg, opened[fo]), posOf(pkg, id.Pos()), fo.Name())
					}
					return true
				})
				ob := &Obligation{Name: fname + "/secondary-input-digested:" + fo.Name(), Kind: "reads-frame", Func: fname, Pos: posOf(pkg, opened[fo]),
					Text:  fmt.Sprintf("the secondary input file %s is read only through attach(h, %s), so every byte parsed from it is hashed into the key", fo.Name(), fo.Name()),
					Props: []string{"C14"}}
				if bad == "" {
					ob.Decided = "discharged"
					ob.Result = SolverResult{Status: "unsat", Solver: "def-use"}
				} else {
					ob.Decided = "failed"
					ob.Result = SolverResult{Status: "sat", Solver: "def-use", Raw: bad}
				}
				obls = append(obls, ob)
			}
		}
		// option variables set by plain assignment of an option's value (e.g. *seqinPath = "-")
		// 2. derivation: assignments before TryCache whose RHS mentions option/derived vars
		tainted := func(o types.Object) bool {
			if _, ok := optVars[o]; ok {
				return true
			}
			_, ok := derived[o]
			return ok
		}
		for changed := true; changed; {
			changed = false
			ast.Inspect(fd.Body, func(n ast.Node) bool {
				var lhs []ast.Expr
				var rhs []ast.Expr
				switch s := n.(type) {
				case *ast.ExprStmt:
					// x.M(args): the receiver absorbs what is passed to it (h.Write(p))
					if call, ok := s.X.(*ast.CallExpr); ok {
						if se, ok := call.Fun.(*ast.SelectorExpr); ok {
							if _, isSel := info.Selections[se]; isSel {
								lhs = []ast.Expr{se.X}
								rhs = call.Args
							}
						}
					}
					if lhs == nil {
						return true
					}
				case *ast.AssignStmt:
					lhs, rhs = s.Lhs, s.Rhs
					// r := attach(h, f): the hash h absorbs everything read from f
					if len(s.Rhs) == 1 {
						if call, ok := s.Rhs[0].(*ast.CallExpr); ok {
							if id, ok := call.Fun.(*ast.Ident); ok && id.Name == "attach" && len(call.Args) == 2 {
								lhs = append(append([]ast.Expr(nil), s.Lhs...), call.Args[0])
							}
						}
					}
				case *ast.RangeStmt:
					if s.Key != nil {
						lhs = append(lhs, s.Key)
					}
					if s.Value != nil {
						lhs = append(lhs, s.Value)
					}
					rhs = []ast.Expr{s.X}
				default:
					return true
				}
				if n.Pos() > tryPos {
					return true
				}
				var srcs []types.Object
				for _, r := range rhs {
					for _, o := range identsIn(info, r) {
						if tainted(o) {
							srcs = append(srcs, o)
						}
					}
				}
				if len(srcs) == 0 {
					return true
				}
				for _, l := range lhs {
					root := l
					for {
						switch x := root.(type) {
						case *ast.IndexExpr:
							root = x.X
							continue
						case *ast.StarExpr:
							root = x.X
							continue
						case *ast.SelectorExpr:
							root = x.X
							continue
						}
						break
					}
					id, ok := root.(*ast.Ident)
					if !ok || id.Name == "_" {
						continue
					}
					o := info.ObjectOf(id)
					if o == nil || flagSets[o] {
						continue
					}
					if _, isOpt := optVars[o]; isOpt {
						continue
					}
					old := derived[o]
					merged := append([]types.Object(nil), old...)
					for _, sr := range srcs {
						dup := false
						for _, m := range merged {
							if m == sr {
								dup = true
							}
						}
						if !dup && sr != o {
							merged = append(merged, sr)
						}
					}
					if len(merged) != len(old) {
						derived[o] = merged
						changed = true
					}
				}
				return true
			})
		}
		// 3. coverage: in the payload, or computed only from covered values
		inPayload := map[types.Object]bool{}
		for _, o := range payload {
			inPayload[o] = true
		}
		// inputs that are hashed as the root sum or do not influence the bytes written
		for o, how := range optVars {
			if how == "Switch" && o.Name() == "nocache" {
				allowed[o.Name()] = true
			}
		}
		// newIODelegate(in, out): the primary input is hashed as the root sum by TryCache; the
		// output path only selects the destination (the file type derived from it is a payload member)
		// The delegate itself is a covered source (what is read through it is the hashed input); the
		// path variables may be read directly, but a value computed from the output path (the file
		// type detected from its extension) is covered only if the payload depends on the path.
		allowedSrc := map[types.Object]bool{}
		ast.Inspect(fd.Body, func(n ast.Node) bool {
			if as, ok := n.(*ast.AssignStmt); ok && len(as.Rhs) == 1 {
				if call, ok := as.Rhs[0].(*ast.CallExpr); ok {
					if id, ok := call.Fun.(*ast.Ident); ok && id.Name == "newIODelegate" {
						for _, l := range as.Lhs {
							if lid, ok := l.(*ast.Ident); ok {
								if o := info.ObjectOf(lid); o != nil {
									allowedSrc[o] = true
								}
							}
						}
					}
				}
			}
			if call, ok := n.(*ast.CallExpr); ok {
				if id, ok := call.Fun.(*ast.Ident); ok && id.Name == "newIODelegate" {
					for _, a := range call.Args {
						for _, o := range identsIn(info, a) {
							allowed[o.Name()] = true
						}
					}
				}
			}
			return true
		})
		// the payload depends on o: some payload member was computed (transitively) from o,
		// e.g. the digest of a secondary input file named by o
		var reaches func(from, target types.Object, depth int) bool
		reaches = func(from, target types.Object, depth int) bool {
			if from == target {
				return true
			}
			if depth > 8 {
				return false
			}
			for _, s := range derived[from] {
				if reaches(s, target, depth+1) {
					return true
				}
			}
			return false
		}
		payloadDependsOn := func(o types.Object) bool {
			for _, p := range payload {
				if reaches(p, o, 0) {
					return true
				}
			}
			return false
		}
		var covered func(o types.Object, depth int) bool
		covered = func(o types.Object, depth int) bool {
			if inPayload[o] || allowedSrc[o] || (allowed[o.Name()] && (depth == 0 || o.Name() == "nocache")) {
				return true
			}
			if _, isOpt := optVars[o]; isOpt {
				return payloadDependsOn(o)
			}
			if depth > 8 {
				return false
			}
			srcs, ok := derived[o]
			if !ok || len(srcs) == 0 {
				return false
			}
			for _, s := range srcs {
				if !covered(s, depth+1) {
					return false
				}
			}
			return true
		}
		// 4. reads after TryCache
		type use struct {
			o   types.Object
			pos token.Pos
		}
		var uses []use
		seenUse := map[types.Object]bool{}
		ast.Inspect(fd.Body, func(n ast.Node) bool {
			id, ok := n.(*ast.Ident)
			if !ok || id.Pos() <= tryPos {
				return true
			}
			o := info.ObjectOf(id)
			if o == nil || seenUse[o] || !tainted(o) {
				return true
			}
			seenUse[o] = true
			uses = append(uses, use{o, id.Pos()})
			return true
		})
		// O2 (typestate): an entry armed by TryCache is kept only when the command commits it
		// (ioDelegate.Close removes an uncommitted entry: contract main.ioDelegate.Close).  So no
		// error return may be reachable after a Commit: every Commit (or write to .done) is a
		// top-level statement of the command body and the statements after it contain no return
		// other than `return nil`.
		{
			isCommit := func(n ast.Node) bool {
				switch x := n.(type) {
				case *ast.CallExpr:
					if se, ok := x.Fun.(*ast.SelectorExpr); ok && se.Sel.Name == "Commit" {
						return true
					}
				case *ast.AssignStmt:
					for _, l := range x.Lhs {
						if se, ok := l.(*ast.SelectorExpr); ok && se.Sel.Name == "done" {
							return true
						}
					}
				}
				return false
			}
			nCommit, bad := 0, ""
			top := map[ast.Node]int{}
			for i, st := range fd.Body.List {
				if es, ok := st.(*ast.ExprStmt); ok && isCommit(es.X) {
					top[es.X] = i
				}
				if as, ok := st.(*ast.AssignStmt); ok && isCommit(as) {
					top[as] = i
				}
			}
			ast.Inspect(fd.Body, func(n ast.Node) bool {
				if n == nil || !isCommit(n) {
					return true
				}
				nCommit++
				i, ok := top[n]
				if !ok {
					bad = fmt.Sprintf("the commit at %s is nested in a branch, loop or closure: an error return may follow it", posOf(pkg, n.Pos()))
					return true
				}
				for _, st := range fd.Body.List[i+1:] {
					ast.Inspect(st, func(m ast.Node) bool {
						if _, ok := m.(*ast.FuncLit); ok {
							return false
						}
						if r, ok := m.(*ast.ReturnStmt); ok {
							if len(r.Results) != 1 {
								bad = fmt.Sprintf("return at %s follows the commit", posOf(pkg, r.Pos()))
							} else if id, ok := r.Results[0].(*ast.Ident); !ok || id.Name != "nil" {
								bad = fmt.Sprintf("the return at %s follows the commit at %s and may carry an error", posOf(pkg, r.Pos()), posOf(pkg, n.Pos()))
							}
						}
						return true
					})
				}
				return true
			})
			o := &Obligation{Name: fname + "/commit-only-on-success", Kind: "typestate", Func: fname, Pos: posOf(pkg, tryPos),
				Text:  fmt.Sprintf("no error return is reachable after the cache entry is committed (%d commit(s) in this command)", nCommit),
				Props: []string{"C14"}}
			if bad == "" {
				o.Decided = "discharged"
				o.Result = SolverResult{Status: "unsat", Solver: "def-use"}
			} else {
				o.Decided = "failed"
				o.Result = SolverResult{Status: "sat", Solver: "def-use", Raw: bad}
			}
			obls = append(obls, o)
		}
		// a variable that is assigned again after TryCache carries, from there on, a value the key
		// does not know unless everything the new value is computed from (and every condition
		// deciding whether the assignment happens) is covered as a computed-from source: an
		// output path may be read directly, but a value derived from it is not covered by that.
		reassigned := map[types.Object]string{}
		ast.Inspect(fd.Body, func(n ast.Node) bool {
			as, ok := n.(*ast.AssignStmt)
			if !ok || as.Pos() <= tryPos {
				return true
			}
			var srcs []types.Object
			for _, r := range as.Rhs {
				srcs = append(srcs, identsIn(info, r)...)
			}
			ast.Inspect(fd.Body, func(m ast.Node) bool {
				if is, ok := m.(*ast.IfStmt); ok && is.Body.Pos() <= as.Pos() && as.End() <= is.Body.End() && is.Pos() > tryPos {
					srcs = append(srcs, identsIn(info, is.Cond)...)
				}
				return true
			})
			for _, l := range as.Lhs {
				id, ok := l.(*ast.Ident)
				if !ok {
					continue
				}
				o := info.ObjectOf(id)
				if o == nil || !(tainted(o) || inPayload[o]) {
					continue
				}
				for _, sr := range srcs {
					if sr == o || !tainted(sr) {
						continue
					}
					if !covered(sr, 1) {
						reassigned[o] = fmt.Sprintf("%s is assigned again at %s, after TryCache, from %s, which the cache key does not cover as a source of computed values", o.Name(), posOf(pkg, as.Pos()), sr.Name())
					}
				}
			}
			return true
		})
		sort.Slice(uses, func(i, j int) bool { return uses[i].o.Name() < uses[j].o.Name() })
		for _, u := range uses {
			ok := allowed[u.o.Name()] || covered(u.o, 0)
			if why, bad := reassigned[u.o]; bad {
				ok = false
				_ = why
			}
			from := "option " + optVars[u.o]
			if srcs, isDer := derived[u.o]; isDer {
				var ns []string
				for _, s := range srcs {
					ns = append(ns, s.Name())
				}
				from = "computed from " + strings.Join(ns, ", ")
			}
			o := &Obligation{
				Name: fmt.Sprintf("%s/reads-after-TryCache:%s", fname, u.o.Name()),
				Kind: "readsframe", Func: fname, Pos: posOf(pkg, u.pos),
				Text:  fmt.Sprintf("%s (%s), read after TryCache, is part of the cache key payload or one of the hashed/irrelevant inputs", u.o.Name(), from),
				Props: []string{"C14"},
			}
			if ok {
				o.Decided = "discharged"
				o.Result = SolverResult{Status: "unsat", Solver: "def-use"}
			} else {
				o.Decided = "failed"
				o.Result = SolverResult{Status: "sat", Solver: "def-use", Raw: fmt.Sprintf("%s is read at %s but does not occur in the encodePayload tuple list of %s and is not computed only from payload members", u.o.Name(), posOf(pkg, u.pos), name)}
				if why, bad := reassigned[u.o]; bad {
					o.Result.Raw = why
				}
			}
			obls = append(obls, o)
		}
	}
	return obls
}

func posOf(pkg *pkgT, p token.Pos) string {
	pos := pkg.Fset.Position(p)
	f := pos.Filename
	if i := strings.Index(f, "/repo/"); i >= 0 {
		f = f[i+6:]
	}
	return fmt.Sprintf("%s:%d", f, pos.Line)
}

// defStmtEnd returns the end of the statement starting at pos in fd's body.
func defStmtEnd(fd *ast.FuncDecl, pos token.Pos) token.Pos {
	end := pos
	ast.Inspect(fd.Body, func(n ast.Node) bool {
		if st, ok := n.(ast.Stmt); ok && st.Pos() == pos {
			end = st.End()
		}
		return true
	})
	return end
}
