package main

// Per-function verification context: SMT command list, states, heaps, obligations.

import (
	"fmt"
	"go/ast"
	"go/token"
	"go/types"
	"regexp"
	"sort"
	"strings"

	"golang.org/x/tools/go/packages"
)

type Obligation struct {
	Name    string
	Kind    string
	Func    string
	Pos     string
	NCmds   int    // prefix of ctx.cmds in scope
	PC      string // path condition
	Prop    string // property to prove under PC
	Text    string // human-readable (contract clause or Go expr)
	Props   []string
	Vacuity bool // expected to be satisfiable (sat = ok)
	ctx     *FnCtx
	Result  SolverResult
	Decided string // discharged | failed | undecided
	KF      *KnownFinding
	Spec    ast.Expr // spec expression for replay rendering (ensures clauses)
	scope   *SpecScope
}

type State struct {
	pc    string
	env   map[types.Object]Val
	heaps map[string]string
	alloc string
}

func (s *State) clone() *State {
	n := &State{pc: s.pc, alloc: s.alloc, env: make(map[types.Object]Val, len(s.env)), heaps: make(map[string]string, len(s.heaps))}
	for k, v := range s.env {
		n.env[k] = v
	}
	for k, v := range s.heaps {
		n.heaps[k] = v
	}
	return n
}

type retExit struct {
	st   *State
	vals []Val
	pos  token.Pos
}

type FnCtx struct {
	eng   *Engine
	w     *World
	pkg   *packages.Package
	info  *types.Info
	fname string // obligation prefix, e.g. gts.Ranged.Expand
	spec  *FuncSpec
	decl  ast.Node // *ast.FuncDecl or *ast.FuncLit
	sig   *types.Signature

	cmds     []string
	declared map[string]bool
	nfresh   int
	obls     []*Obligation
	counts   map[string]int

	entry       *State
	paramVals   map[string]Val // spec name -> entry value
	paramObjs   map[string]types.Object
	resultObjs  []types.Object // named results (may be nil entries)
	resultName  []string       // spec names of results
	rets        []retExit
	breaks      [][]*State
	conts       [][]*State
	iterStates  []*State
	loopOrd     int
	litOrd      int
	inlineDepth int
	inlineStack []string
	retStack    []*[]retExit

	unmodelled      map[string]bool
	trusted         map[string]bool
	unsupported     []string
	strLits         map[string]string
	factCache       map[string]bool
	ghost           map[string]Val // ghost names introduced by spec (e.g. witnesses)
	curProps        []string
	sigStack        []*types.Signature
	autoFrame       bool
	renames         map[string]string // contract name of a local -> its current name (locals.go)
	rangeKeys       map[int]string    // loop ordinal -> name of the key variable of a range loop (recorded for claims/rangekeys.json)
	baseRangeKey    map[int]string    // the same, as recorded when the contracts were written
	curLocals       map[string]bool   // names of the function's locals
	loopRemap       map[int]int       // current loop ordinal -> recorded ordinal (locals.go)
	pureDepth       int               // nesting of callee-body scans in callIsPure
	callHeapKeys    map[string]bool
	deps            map[string]bool
	isMacro         map[string]bool
	ghostFns        map[string]string // ghost function name -> current SMT symbol
	axiomsDone      map[string]bool
	frameExcept     []Val
	frameWhole      []string // element heaps the function may write anywhere (assigns heap(T))
	dispatchDepth   int
	knownInts       map[string]int64
	capturedBinding map[string]Val        // captured variables of the literal being called by contract
	globalCache     map[*types.Var]Val    // one symbolic value per package-level variable (read-only within a call)
	openBound       []string              // bound variables of the quantifiers currently being evaluated
	boxed           map[types.Object]bool // locals whose address is taken live in the pointer heap
}

type KnownFinding struct {
	Property   string                 `json:"property"`
	Obligation string                 `json:"obligation"`
	Guard      string                 `json:"guard"`
	What       string                 `json:"what"`
	Witness    map[string]interface{} `json:"witness,omitempty"`
	Instead    string                 `json:"instead,omitempty"`
	guardTerm  string
}

func (c *FnCtx) emit(cmd string) {
	if strings.Contains(cmd, ":pattern ((H_") {
		cmd = c.stripMacroPatterns(cmd)
	}
	c.cmds = append(c.cmds, cmd)
}

// stripMacroPatterns removes ":pattern" annotations whose head symbol is a macro-defined heap
// version (a define-fun): after macro expansion such a pattern is not a valid trigger.
func (c *FnCtx) stripMacroPatterns(cmd string) string {
	for {
		changed := false
		idx := 0
		for {
			i := strings.Index(cmd[idx:], ":pattern ((")
			if i < 0 {
				break
			}
			i += idx
			idx = i + 1
			j := i + len(":pattern ((")
			k := j
			for k < len(cmd) && cmd[k] != ' ' && cmd[k] != ')' {
				k++
			}
			if !c.isMacro[cmd[j:k]] {
				continue
			}
			// end of the pattern clause: the ')' closing ":pattern (" ... ")"
			d := 0
			e := i + len(":pattern ")
			for ; e < len(cmd); e++ {
				if cmd[e] == '(' {
					d++
				} else if cmd[e] == ')' {
					d--
					if d == 0 {
						e++
						break
					}
				}
			}
			// the enclosing "(! body :pattern (...))": find its opening
			d = 0
			b := i - 1
			for ; b >= 0; b-- {
				if cmd[b] == ')' {
					d++
				} else if cmd[b] == '(' {
					if d == 0 {
						break
					}
					d--
				}
			}
			if b < 0 || !strings.HasPrefix(cmd[b:], "(! ") || e >= len(cmd) || cmd[e] != ')' {
				break
			}
			body := strings.TrimSpace(cmd[b+3 : i])
			cmd = cmd[:b] + body + cmd[e+1:]
			changed = true
			break
		}
		if !changed {
			return cmd
		}
	}
}

func (c *FnCtx) declare(name string, argSorts []string, ret string) {
	if c.declared[name] {
		return
	}
	c.declared[name] = true
	if len(argSorts) == 0 {
		c.emit(fmt.Sprintf("(declare-const %s %s)", name, ret))
	} else {
		c.emit(fmt.Sprintf("(declare-fun %s (%s) %s)", name, strings.Join(argSorts, " "), ret))
	}
}

func (c *FnCtx) fresh(hint, sort string) string {
	c.nfresh++
	name := fmt.Sprintf("%s!%d", smtName(hint), c.nfresh)
	c.declare(name, nil, sort)
	return name
}

func (c *FnCtx) define(hint, sort, term string) string {
	if len(term) < 24 {
		return term
	}
	c.nfresh++
	name := fmt.Sprintf("%s!%d", smtName(hint), c.nfresh)
	c.declared[name] = true
	c.emit(fmt.Sprintf("(define-fun %s () %s %s)", name, sort, term))
	return name
}

func (c *FnCtx) freshVal(t types.Type, hint string) Val {
	v := c.w.proto(t, hint, func(path, sort string) string { return c.fresh(path, sort) })
	return v
}

// typeFacts returns facts that hold for any well-formed value of its Go type.
func (c *FnCtx) typeFacts(v Val) []string {
	var out []string
	switch v.K {
	case KInt:
		if v.T != nil {
			if f := typeRangeFact(v.T, v.S); f != "" {
				out = append(out, f)
			}
		}
	case KSlice:
		out = append(out,
			sx("<=", "0", v.off()), sx("<=", "0", v.ln()), sx("<=", v.ln(), v.cp()),
			sx(">=", v.ref(), "0"),
			sx("=", sx("+", v.off(), v.cp()), sx("asize", v.ref())),
			sx("=>", sx("=", v.ref(), "0"), sAnd(sx("=", v.cp(), "0"), sx("=", v.off(), "0"))))
	case KPtr:
		out = append(out, sx(">=", v.S, "0"))
	case KStruct, KArray, KTuple:
		for _, f := range v.F {
			out = append(out, c.typeFacts(f)...)
		}
	}
	return out
}

func (c *FnCtx) assume(st *State, fact string) {
	if fact == "true" {
		return
	}
	c.emit(sx("assert", sImp(st.pc, fact)))
}

func (c *FnCtx) fact(fact string) {
	if fact == "true" || c.factCache[fact] {
		return
	}
	for _, bv := range c.openBound {
		if strings.Contains(fact, bv) {
			// mentions a bound variable of a quantifier being built: not a global fact
			return
		}
	}
	c.factCache[fact] = true
	c.emit(sx("assert", fact))
}

func (c *FnCtx) posStr(p token.Pos) string {
	if !p.IsValid() {
		return ""
	}
	pos := c.pkg.Fset.Position(p)
	f := pos.Filename
	if i := strings.Index(f, "/repo/"); i >= 0 {
		f = f[i+6:]
	}
	return fmt.Sprintf("%s:%d", f, pos.Line)
}

// oblige records a proof obligation "pc => prop" and then assumes it.
func (c *FnCtx) oblige(st *State, kind, prop, text string, pos token.Pos) *Obligation {
	return c.obligeNamed(st, kind, "", prop, text, pos)
}

func (c *FnCtx) obligeNamed(st *State, kind, name, prop, text string, pos token.Pos) *Obligation {
	if name == "" {
		c.counts[kind]++
		name = fmt.Sprintf("%s/%s#%d", c.fname, kind, c.counts[kind])
	} else {
		name = c.fname + "/" + name
	}
	if prop == "true" {
		// trivially true: still count it as discharged without a query
		o := &Obligation{Name: name, Kind: kind, Func: c.fname, Pos: c.posStr(pos), NCmds: len(c.cmds), PC: st.pc, Prop: prop, Text: text, ctx: c, Props: c.curProps}
		c.obls = append(c.obls, o)
		return o
	}
	o := &Obligation{Name: name, Kind: kind, Func: c.fname, Pos: c.posStr(pos), NCmds: len(c.cmds), PC: st.pc, Prop: prop, Text: text, ctx: c, Props: c.curProps}
	c.obls = append(c.obls, o)
	c.assume(st, prop)
	return o
}

func (c *FnCtx) unsupport(what string, pos token.Pos) {
	c.unsupported = append(c.unsupported, fmt.Sprintf("%s at %s", what, c.posStr(pos)))
}

// ---------------------------------------------------------------------------
// heaps

func (c *FnCtx) elemKey(t types.Type) string { return smtName(typeKey(t)) }

// heapSym returns the current function symbol for heap key (declaring version 0 lazily).
func (c *FnCtx) heapSym(st *State, key, sort string, nargs int) string {
	if s, ok := st.heaps[key]; ok {
		return s
	}
	name := "H_" + key + "_0"
	heapSorts[key] = sort
	args := []string{"Int", "Int"}
	if nargs == 1 {
		args = []string{"Int"}
	}
	if !c.declared[name] {
		c.declare(name, args, sort)
		c.heapRangeAxiom(key, name, nargs)
		// well-formed entry heap: every slice header stored in memory at entry refers to memory
		// allocated before the call (also under a quantifier, where the per-read fact of
		// entryRefFacts cannot be emitted)
		if strings.HasSuffix(key, "_ref") && sort == "Int" && nargs == 2 && c.entry != nil && c.entry.alloc != "" {
			c.emit(fmt.Sprintf("(assert (forall ((r Int) (i Int)) (! (< (%s r i) %s) :pattern ((%s r i)))))", name, c.entry.alloc, name))
		}
	}
	return name
}

// heapRangeAxiom states the value range of an uninterpreted heap version whose
// components are small unsigned integers (bytes).
func (c *FnCtx) heapRangeAxiom(key, sym string, nargs int) {
	rng, ok := heapRanges[key]
	if !ok {
		return
	}
	if nargs == 1 {
		c.emit(fmt.Sprintf("(assert (forall ((r Int)) (! (and (<= %d (%s r)) (<= (%s r) %d)) :pattern ((%s r)))))", rng[0], sym, sym, rng[1], sym))
	} else {
		c.emit(fmt.Sprintf("(assert (forall ((r Int) (i Int)) (! (and (<= %d (%s r i)) (<= (%s r i) %d)) :pattern ((%s r i)))))", rng[0], sym, sym, rng[1], sym))
	}
}

var heapRanges = map[string][2]int64{}

func noteHeapRange(key string, t types.Type) {
	if b, ok := t.Underlying().(*types.Basic); ok {
		switch b.Kind() {
		case types.Uint8:
			heapRanges[key] = [2]int64{0, 255}
		case types.Uint16:
			heapRanges[key] = [2]int64{0, 65535}
		}
	}
}

func (c *FnCtx) readElem(st *State, elem types.Type, ref, idx string) Val {
	ek := c.elemKey(elem)
	noteHeapRange(ek, elem)
	v := c.w.proto(elem, "", func(path, sort string) string {
		h := c.heapSym(st, ek+path, sort, 2)
		return sx(h, ref, idx)
	})
	for _, f := range c.typeFacts(v) {
		c.fact(f)
	}
	c.entryRefFacts(v)
	return v
}

// entryRefFacts: references read out of the entry heap were allocated before the call.
func (c *FnCtx) entryRefFacts(v Val) {
	fromEntry := func(t string) bool {
		if !strings.HasPrefix(t, "(H_") && !strings.HasPrefix(t, "(P_") {
			return false
		}
		sym := t[1:]
		if i := strings.IndexByte(sym, ' '); i >= 0 {
			sym = sym[:i]
		}
		return strings.HasSuffix(sym, "_0")
	}
	switch v.K {
	case KSlice:
		if fromEntry(v.ref()) {
			c.fact(sx("<", v.ref(), "alloc0"))
		}
	case KPtr:
		if fromEntry(v.S) {
			c.fact(sx("<", v.S, "alloc0"))
		}
	case KStruct, KArray, KTuple:
		for _, f := range v.F {
			c.entryRefFacts(f)
		}
	}
}

func (c *FnCtx) newHeapVersion(key string) string {
	c.nfresh++
	return fmt.Sprintf("H_%s_%d", key, c.nfresh)
}

func (c *FnCtx) writeElem(st *State, elem types.Type, ref, idx string, v Val) {
	ek := c.elemKey(elem)
	i := 0
	fl := v.flat()
	c.w.proto(elem, "", func(path, sort string) string {
		key := ek + path
		old := c.heapSym(st, key, sort, 2)
		nw := c.newHeapVersion(key)
		c.declared[nw] = true
		c.isMacro[nw] = true
		c.emit(fmt.Sprintf("(define-fun %s ((r Int) (i Int)) %s (ite (and (= r %s) (= i %s)) %s (%s r i)))", nw, sort, ref, idx, fl[i].S, old))
		st.heaps[key] = nw
		i++
		return ""
	})
}

// copyElems models copy(dst[doff:doff+n], src[soff:soff+n]) with memmove semantics.
func (c *FnCtx) copyElems(st *State, elem types.Type, dref, doff, sref, soff, n string) {
	ek := c.elemKey(elem)
	c.w.proto(elem, "", func(path, sort string) string {
		key := ek + path
		old := c.heapSym(st, key, sort, 2)
		nw := c.newHeapVersion(key)
		c.declared[nw] = true
		c.isMacro[nw] = true
		c.emit(fmt.Sprintf("(define-fun %s ((r Int) (i Int)) %s (ite (and (= r %s) (<= %s i) (< i (+ %s %s))) (%s %s (+ %s (- i %s))) (%s r i)))",
			nw, sort, dref, doff, doff, n, old, sref, soff, doff, old))
		st.heaps[key] = nw
		return ""
	})
}

// copyFromStr models copying n bytes of a string into a byte slice.
func (c *FnCtx) copyFromStr(st *State, dref, doff, str, soff, n string) {
	key := c.elemKey(types.Typ[types.Uint8])
	old := c.heapSym(st, key, "Int", 2)
	nw := c.newHeapVersion(key)
	c.declared[nw] = true
	c.isMacro[nw] = true
	c.emit(fmt.Sprintf("(define-fun %s ((r Int) (i Int)) Int (ite (and (= r %s) (<= %s i) (< i (+ %s %s))) (sat %s (+ %s (- i %s))) (%s r i)))",
		nw, dref, doff, doff, n, str, soff, doff, old))
	st.heaps[key] = nw
}

// havocHeap replaces a heap by an unconstrained new version.
func (c *FnCtx) havocHeap(st *State, key string) (old, nw string) {
	old, ok := st.heaps[key]
	if !ok {
		old = "H_" + key + "_0"
	}
	sortOf := c.heapSort(key)
	nargs := 2
	if strings.HasPrefix(key, "P_") || strings.HasPrefix(key, "G_") {
		nargs = 1
	}
	if !c.declared[old] {
		c.heapSym(st, key, sortOf, nargs)
	}
	nw = c.newHeapVersion(key)
	args := []string{"Int", "Int"}
	if nargs == 1 {
		args = []string{"Int"}
	}
	c.declare(nw, args, sortOf)
	c.heapRangeAxiom(key, nw, nargs)
	st.heaps[key] = nw
	return old, nw
}

var heapSorts = map[string]string{}

func (c *FnCtx) heapSort(key string) string {
	if s, ok := heapSorts[key]; ok {
		return s
	}
	return "Int"
}

// heapKeysOf lists heap keys (with sorts) for elements reachable from type t.
func (c *FnCtx) heapKeysOf(t types.Type, seen map[string]bool, out map[string]string) {
	k := typeKey(t)
	if seen[k] {
		return
	}
	seen[k] = true
	switch u := t.Underlying().(type) {
	case *types.Slice:
		ek := c.elemKey(u.Elem())
		c.w.proto(u.Elem(), "", func(path, sort string) string {
			out[ek+path] = sort
			heapSorts[ek+path] = sort
			return ""
		})
		c.heapKeysOf(u.Elem(), seen, out)
	case *types.Struct:
		for i := 0; i < u.NumFields(); i++ {
			c.heapKeysOf(u.Field(i).Type(), seen, out)
		}
	case *types.Array:
		c.heapKeysOf(u.Elem(), seen, out)
	case *types.Pointer:
		pk := "P_" + c.elemKey(u.Elem())
		c.w.proto(u.Elem(), "", func(path, sort string) string {
			out[pk+path] = sort
			heapSorts[pk+path] = sort
			return ""
		})
		c.heapKeysOf(u.Elem(), seen, out)
	case *types.Interface:
		if u.NumMethods() == 0 {
			return
		}
		for _, n := range c.w.named {
			if types.Implements(n, u) {
				c.heapKeysOf(n, seen, out)
			}
		}
	case *types.Tuple:
		for i := 0; i < u.Len(); i++ {
			c.heapKeysOf(u.At(i).Type(), seen, out)
		}
	}
}

// pointer field heaps
func (c *FnCtx) readPtr(st *State, elem types.Type, addr string) Val {
	pk := "P_" + c.elemKey(elem)
	v := c.w.proto(elem, "", func(path, sort string) string {
		heapSorts[pk+path] = sort
		h := c.heapSym(st, pk+path, sort, 1)
		return sx(h, addr)
	})
	for _, f := range c.typeFacts(v) {
		c.fact(f)
	}
	c.entryRefFacts(v)
	return v
}

func (c *FnCtx) writePtr(st *State, elem types.Type, addr string, v Val) {
	pk := "P_" + c.elemKey(elem)
	i := 0
	fl := v.flat()
	c.w.proto(elem, "", func(path, sort string) string {
		key := pk + path
		heapSorts[key] = sort
		old := c.heapSym(st, key, sort, 1)
		nw := c.newHeapVersion(key)
		c.declared[nw] = true
		c.isMacro[nw] = true
		c.emit(fmt.Sprintf("(define-fun %s ((r Int)) %s (ite (= r %s) %s (%s r)))", nw, sort, addr, fl[i].S, old))
		st.heaps[key] = nw
		i++
		return ""
	})
}

// allocRef returns a fresh reference (allocated now) and bumps the allocation counter.
func (c *FnCtx) allocRef(st *State) string {
	r := c.define("ref", "Int", st.alloc)
	st.alloc = c.define("alloc", "Int", sx("+", r, "1"))
	return r
}

// makeSlice allocates a fresh slice with given len/cap terms; contents zero if zeroed.
func (c *FnCtx) makeSlice(st *State, elem types.Type, t types.Type, ln, cp string, zeroed bool) Val {
	r := c.allocRef(st)
	c.assume(st, sx("=", sx("asize", r), cp))
	v := mkSlice(r, "0", ln, cp, elem, t)
	if zeroed {
		// contents of a fresh array are zero: define new heap versions
		ek := c.elemKey(elem)
		z := c.w.zero(elem).flat()
		i := 0
		c.w.proto(elem, "", func(path, sort string) string {
			key := ek + path
			heapSorts[key] = sort
			old := c.heapSym(st, key, sort, 2)
			nw := c.newHeapVersion(key)
			c.declared[nw] = true
			c.isMacro[nw] = true
			c.emit(fmt.Sprintf("(define-fun %s ((r Int) (i Int)) %s (ite (= r %s) %s (%s r i)))", nw, sort, r, z[i].S, old))
			st.heaps[key] = nw
			i++
			return ""
		})
	}
	return v
}

// ---------------------------------------------------------------------------
// merging

func (c *FnCtx) merge(states []*State) *State {
	var live []*State
	for _, s := range states {
		if s != nil && s.pc != "false" {
			live = append(live, s)
		}
	}
	if len(live) == 0 {
		return nil
	}
	if len(live) == 1 {
		return live[0]
	}
	out := &State{env: map[types.Object]Val{}, heaps: map[string]string{}}
	var pcs []string
	for _, s := range live {
		pcs = append(pcs, s.pc)
	}
	out.pc = c.define("pc", "Bool", sOr(pcs...))
	// variables present in all
	objs := make([]types.Object, 0, len(live[0].env))
	for o := range live[0].env {
		objs = append(objs, o)
	}
	sort.Slice(objs, func(i, j int) bool {
		if objs[i].Pos() != objs[j].Pos() {
			return objs[i].Pos() < objs[j].Pos()
		}
		return objs[i].Name() < objs[j].Name()
	})
	for _, o := range objs {
		v0 := live[0].env[o]
		all := true
		same := true
		for _, s := range live[1:] {
			v, ok := s.env[o]
			if !ok {
				all = false
				break
			}
			if v.String() != v0.String() {
				same = false
			}
		}
		if !all {
			continue
		}
		if same {
			out.env[o] = v0
			continue
		}
		out.env[o] = c.mergeVals(o.Name(), live, func(s *State) Val { return s.env[o] })
	}
	// alloc
	sameAlloc := true
	for _, s := range live[1:] {
		if s.alloc != live[0].alloc {
			sameAlloc = false
		}
	}
	if sameAlloc {
		out.alloc = live[0].alloc
	} else {
		t := live[len(live)-1].alloc
		for i := len(live) - 2; i >= 0; i-- {
			t = sIte(live[i].pc, live[i].alloc, t)
		}
		out.alloc = c.define("alloc", "Int", t)
	}
	// heaps
	keys := map[string]bool{}
	for _, s := range live {
		for k := range s.heaps {
			keys[k] = true
		}
	}
	ks := make([]string, 0, len(keys))
	for k := range keys {
		ks = append(ks, k)
	}
	sort.Strings(ks)
	for _, k := range ks {
		srt := c.heapSort(k)
		nargs := 2
		if strings.HasPrefix(k, "P_") || strings.HasPrefix(k, "G_") {
			nargs = 1
		}
		syms := make([]string, len(live))
		same := true
		for i, s := range live {
			syms[i] = c.heapSym(s, k, srt, nargs)
			if syms[i] != syms[0] {
				same = false
			}
		}
		if same {
			out.heaps[k] = syms[0]
			continue
		}
		nw := c.newHeapVersion(k)
		c.declared[nw] = true
		c.isMacro[nw] = true
		if nargs == 2 {
			t := sx(syms[len(live)-1], "r", "i")
			for i := len(live) - 2; i >= 0; i-- {
				t = sIte(live[i].pc, sx(syms[i], "r", "i"), t)
			}
			c.emit(fmt.Sprintf("(define-fun %s ((r Int) (i Int)) %s %s)", nw, srt, t))
		} else {
			t := sx(syms[len(live)-1], "r")
			for i := len(live) - 2; i >= 0; i-- {
				t = sIte(live[i].pc, sx(syms[i], "r"), t)
			}
			c.emit(fmt.Sprintf("(define-fun %s ((r Int)) %s %s)", nw, srt, t))
		}
		out.heaps[k] = nw
	}
	return out
}

func (c *FnCtx) mergeVals(hint string, live []*State, get func(*State) Val) Val {
	vals := make([][]scalar, len(live))
	for i, s := range live {
		vals[i] = get(s).flat()
	}
	proto := get(live[0])
	terms := make([]string, len(vals[0]))
	for j := range vals[0] {
		if len(vals[len(live)-1]) != len(vals[0]) {
			// shape mismatch (should not happen); keep first
			terms[j] = vals[0][j].S
			continue
		}
		t := vals[len(live)-1][j].S
		for i := len(live) - 2; i >= 0; i-- {
			t = sIte(live[i].pc, vals[i][j].S, t)
		}
		terms[j] = c.define(hint, vals[0][j].Sort, t)
	}
	v, _ := unflat(proto, terms)
	return v
}

var boundTok = regexp.MustCompile(`[A-Za-z_][A-Za-z0-9_]*\?[0-9]+(a[0-9]*)?`)

// hasFreeBound reports whether a term mentions a quantifier-bound variable outside its binder.
func hasFreeBound(t string) bool {
	for _, m := range boundTok.FindAllString(t, -1) {
		if !strings.Contains(t, "(("+m+" Int)") && !strings.Contains(t, "(let (("+m+" ") {
			return true
		}
	}
	return false
}
