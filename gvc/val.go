package main

// Symbolic values and the mapping from Go types to SMT shapes.

import (
	"fmt"
	"go/types"
	"regexp"
	"sort"
	"strings"
)

type Kind int

const (
	KInt Kind = iota
	KBool
	KStr
	KIfc
	KPtr
	KFn
	KMap
	KStruct
	KArray
	KSlice // F = [ref, off, len, cap]
	KTuple
	KUnit
)

type Val struct {
	K     Kind
	S     string // scalar term
	F     []Val
	Names []string   // struct field names
	T     types.Type // Go type when known
	Elem  types.Type // slice / pointer element type
	Lit   *closureLit
	Inner *Val // statically boxed concrete value (spec evaluation only); T is its dynamic type
	// Cases: when the value is the merged result of an inlined helper with several returns, the
	// value of each return path with the path condition it was returned under.  Call-site
	// obligations (callpre) are then generated per case instead of on the merged ite-term, so that
	// extracting a switch into a helper does not change what has to be proved.
	Cases []valCase
}

type valCase struct {
	cond string
	v    Val
}

func (k Kind) sort() string {
	switch k {
	case KInt, KPtr:
		return "Int"
	case KBool:
		return "Bool"
	case KStr:
		return "Str"
	case KIfc:
		return "Ifc"
	case KFn:
		return "Fn"
	case KMap:
		return "MapV"
	}
	return "?"
}

func vInt(s string) Val     { return Val{K: KInt, S: s} }
func vBool(s string) Val    { return Val{K: KBool, S: s} }
func vConstInt(n int64) Val { return vInt(sInt(n)) }

func (v Val) isScalar() bool {
	switch v.K {
	case KInt, KBool, KStr, KIfc, KPtr, KFn, KMap:
		return true
	}
	return false
}

type scalar struct {
	S    string
	Sort string
}

// flat lists the scalar components of a value in a fixed order.
func (v Val) flat() []scalar {
	if v.isScalar() {
		return []scalar{{v.S, v.K.sort()}}
	}
	var out []scalar
	for _, f := range v.F {
		out = append(out, f.flat()...)
	}
	return out
}

// unflat rebuilds a value of the same shape as proto from scalar terms.
func unflat(proto Val, terms []string) (Val, []string) {
	if proto.isScalar() {
		r := proto
		r.S = terms[0]
		return r, terms[1:]
	}
	r := proto
	r.F = make([]Val, len(proto.F))
	for i, f := range proto.F {
		r.F[i], terms = unflat(f, terms)
	}
	return r, terms
}

func (v Val) field(name string) (Val, bool) {
	for i, n := range v.Names {
		if n == name {
			return v.F[i], true
		}
	}
	return Val{}, false
}

func (v Val) withField(name string, x Val) Val {
	r := v
	r.F = append([]Val(nil), v.F...)
	for i, n := range v.Names {
		if n == name {
			r.F[i] = x
		}
	}
	return r
}

func (v Val) String() string {
	if v.isScalar() {
		return v.S
	}
	var xs []string
	for _, f := range v.F {
		xs = append(xs, f.String())
	}
	return "{" + strings.Join(xs, ",") + "}"
}

// slice header accessors
func (v Val) ref() string { return v.F[0].S }
func (v Val) off() string { return v.F[1].S }
func (v Val) ln() string  { return v.F[2].S }
func (v Val) cp() string  { return v.F[3].S }

func mkSlice(ref, off, ln, cp string, elem types.Type, t types.Type) Val {
	return Val{K: KSlice, F: []Val{vInt(ref), vInt(off), vInt(ln), vInt(cp)}, Elem: elem, T: t}
}

// ---------------------------------------------------------------------------

type World struct {
	typeIDs   map[string]int // concrete dynamic type -> tag
	typeByID  map[int]types.Type
	typeNames []string
	named     []*types.Named // all named non-interface types of loaded packages
}

func newWorld() *World {
	return &World{typeIDs: map[string]int{}, typeByID: map[int]types.Type{}}
}

var aliasRe = regexp.MustCompile(`\b(byte|rune)\b`)

func typeKey(t types.Type) string {
	s := types.TypeString(t, func(p *types.Package) string { return p.Name() })
	return aliasRe.ReplaceAllStringFunc(s, func(m string) string {
		if m == "byte" {
			return "uint8"
		}
		return "int32"
	})
}

func (w *World) typeID(t types.Type) int {
	k := typeKey(t)
	if id, ok := w.typeIDs[k]; ok {
		return id
	}
	id := len(w.typeIDs) + 1
	w.typeIDs[k] = id
	w.typeByID[id] = t
	return id
}

func smtName(s string) string {
	r := strings.NewReplacer("*", "P", "[", "L", "]", "J", ".", "_", " ", "_", "{", "_", "}", "_", ",", "_", "(", "_", ")", "_", "/", "_", ";", "_", "$", "_")
	return r.Replace(s)
}

// proto builds a value of the shape of t whose scalar terms are made by gen(path, sort).
func (w *World) proto(t types.Type, path string, gen func(path, sort string) string) Val {
	switch u := t.Underlying().(type) {
	case *types.Basic:
		switch {
		case u.Info()&types.IsBoolean != 0:
			return Val{K: KBool, S: gen(path, "Bool"), T: t}
		case u.Info()&types.IsInteger != 0:
			return Val{K: KInt, S: gen(path, "Int"), T: t}
		case u.Info()&types.IsString != 0:
			return Val{K: KStr, S: gen(path, "Str"), T: t}
		case u.Kind() == types.UntypedNil:
			return Val{K: KIfc, S: "nilIfc", T: t}
		case u.Kind() == types.UnsafePointer:
			return Val{K: KPtr, S: gen(path, "Int"), T: t}
		}
		// floats etc: opaque ints
		return Val{K: KInt, S: gen(path, "Int"), T: t}
	case *types.Struct:
		v := Val{K: KStruct, T: t}
		for i := 0; i < u.NumFields(); i++ {
			f := u.Field(i)
			v.Names = append(v.Names, f.Name())
			v.F = append(v.F, w.proto(f.Type(), path+"_"+f.Name(), gen))
		}
		return v
	case *types.Array:
		v := Val{K: KArray, T: t, Elem: u.Elem()}
		n := int(u.Len())
		if n > 16 {
			n = 0 // large arrays are not modelled
		}
		for i := 0; i < n; i++ {
			v.F = append(v.F, w.proto(u.Elem(), fmt.Sprintf("%s_%d", path, i), gen))
		}
		return v
	case *types.Slice:
		return Val{K: KSlice, T: t, Elem: u.Elem(), F: []Val{
			vInt(gen(path+"_ref", "Int")), vInt(gen(path+"_off", "Int")),
			vInt(gen(path+"_len", "Int")), vInt(gen(path+"_cap", "Int"))}}
	case *types.Pointer:
		return Val{K: KPtr, S: gen(path, "Int"), T: t, Elem: u.Elem()}
	case *types.Interface:
		return Val{K: KIfc, S: gen(path, "Ifc"), T: t}
	case *types.Signature:
		return Val{K: KFn, S: gen(path, "Fn"), T: t}
	case *types.Map, *types.Chan:
		return Val{K: KMap, S: gen(path, "MapV"), T: t}
	case *types.Tuple:
		v := Val{K: KTuple, T: t}
		for i := 0; i < u.Len(); i++ {
			v.F = append(v.F, w.proto(u.At(i).Type(), fmt.Sprintf("%s_%d", path, i), gen))
		}
		return v
	}
	return Val{K: KInt, S: gen(path, "Int"), T: t}
}

// zero value of a type
func (w *World) zero(t types.Type) Val {
	return w.proto(t, "z", func(path, sort string) string {
		switch sort {
		case "Int":
			return "0"
		case "Bool":
			return "false"
		case "Str":
			return "strEmpty"
		case "Ifc":
			return "nilIfc"
		case "Fn":
			return "nilFn"
		case "MapV":
			return "nilMap"
		}
		return "0"
	})
}

// implementers returns ids of known concrete types that implement iface.
func (w *World) implementers(iface *types.Interface) []int {
	var ids []int
	for _, n := range w.named {
		if types.Implements(n, iface) {
			ids = append(ids, w.typeID(n))
		} else if types.Implements(types.NewPointer(n), iface) {
			ids = append(ids, w.typeID(types.NewPointer(n)))
		}
	}
	sort.Ints(ids)
	return ids
}

// range facts implied by a Go integer type (unsigned / small widths)
func typeRangeFact(t types.Type, term string) string {
	b, ok := t.Underlying().(*types.Basic)
	if !ok {
		return ""
	}
	switch b.Kind() {
	case types.Uint8:
		return sAnd(sx("<=", "0", term), sx("<=", term, "255"))
	case types.Uint16:
		return sAnd(sx("<=", "0", term), sx("<=", term, "65535"))
	case types.Uint, types.Uint32, types.Uint64, types.Uintptr:
		return sx("<=", "0", term)
	case types.Int8:
		return sAnd(sx("<=", "(- 128)", term), sx("<=", term, "127"))
	case types.Int32:
		return sAnd(sx("<=", "(- 2147483648)", term), sx("<=", term, "2147483647"))
	}
	return ""
}
