package main

// Engine: loads /repo, binds contracts, generates and discharges obligations.

import (
	"fmt"
	"go/ast"
	"go/parser"
	"go/token"
	"go/types"
	"os"
	"path/filepath"
	"regexp"
	"sort"
	"strings"
	"sync"
	"time"

	"golang.org/x/tools/go/packages"
)

type pkgT = packages.Package

type declInfo struct {
	decl *ast.FuncDecl
	pkg  *packages.Package
}

type globalInfo struct {
	init     ast.Expr
	pkg      *packages.Package
	assigned bool
}

type Target struct {
	Key  string // pkgname.Key
	pkg  *packages.Package
	decl *ast.FuncDecl
	lit  *ast.FuncLit
	sig  *types.Signature
	spec *FuncSpec
}

type Engine struct {
	repo           string
	pkgs           []*packages.Package
	w              *World
	contracts      *Contracts
	decls          map[*types.Func]*declInfo
	globals        map[*types.Var]*globalInfo
	targets        map[string]*Target
	litKeys        map[*ast.FuncLit]string
	overflowChecks bool
	timeoutS       int
	loadTime       float64
	localsBase     map[string][]localEntry // claims/locals.json (locals.go)
	renamesUsed    map[string]map[string]string
	rangeKeyBase   map[string]map[int]string // claims/rangekeys.json
	loopsBase      map[string][]string       // claims/loops.json
	litFPs         map[string][]string       // function -> fingerprints of its function literals, in source order
	unbound        []unboundContract         // contracts that match no function of the current tree
}

func loadEngine(repo string) (*Engine, error) {
	t0 := time.Now()
	cfg := &packages.Config{Mode: packages.LoadAllSyntax, Dir: repo, BuildFlags: []string{"-tags=verif"},
		Env: append(os.Environ(), "GOFLAGS=-mod=mod", "GOPROXY=off", "GOSUMDB=off", "GOTOOLCHAIN=local")}
	all, err := packages.Load(cfg, "./...")
	if err != nil {
		return nil, err
	}
	e := &Engine{repo: repo, w: newWorld(), decls: map[*types.Func]*declInfo{}, globals: map[*types.Var]*globalInfo{}, targets: map[string]*Target{}, litKeys: map[*ast.FuncLit]string{}, timeoutS: 8}
	var errs []string
	for _, p := range all {
		for _, pe := range p.Errors {
			errs = append(errs, pe.Error())
		}
		switch p.PkgPath {
		case "github.com/go-gts/gts", "github.com/go-gts/gts/seqio", "github.com/go-gts/gts/cmd/cache", "github.com/go-gts/gts/cmd/gts":
			e.pkgs = append(e.pkgs, p)
		}
	}
	if len(errs) > 0 {
		return nil, fmt.Errorf("type errors loading %s: %s", repo, strings.Join(errs, "; "))
	}
	if len(e.pkgs) == 0 {
		return nil, fmt.Errorf("no packages loaded from %s", repo)
	}
	sort.Slice(e.pkgs, func(i, j int) bool { return e.pkgs[i].PkgPath < e.pkgs[j].PkgPath })
	// stable type ids: named types in a fixed order
	for _, p := range e.pkgs {
		sc := p.Types.Scope()
		names := sc.Names()
		sort.Strings(names)
		for _, n := range names {
			if tn, ok := sc.Lookup(n).(*types.TypeName); ok && !tn.IsAlias() {
				if named, ok := tn.Type().(*types.Named); ok {
					if _, isI := named.Underlying().(*types.Interface); !isI {
						e.w.named = append(e.w.named, named)
						e.w.typeID(named)
					}
				}
			}
		}
	}
	// declarations, globals
	var cfiles, cpkgs []string
	for _, p := range e.pkgs {
		for _, f := range p.Syntax {
			fname := p.Fset.Position(f.Pos()).Filename
			if strings.HasSuffix(fname, "contracts_verif.go") {
				cfiles = append(cfiles, fname)
				cpkgs = append(cpkgs, p.Name)
			}
			for _, d := range f.Decls {
				switch x := d.(type) {
				case *ast.FuncDecl:
					if fn, ok := p.TypesInfo.Defs[x.Name].(*types.Func); ok {
						e.decls[fn] = &declInfo{x, p}
						key := p.Name + "." + declKey(x)
						e.targets[key] = &Target{Key: key, pkg: p, decl: x, sig: fn.Type().(*types.Signature)}
						for ord, lit := range e.numberLits(key, x, p) {
							k := fmt.Sprintf("%s$%d", key, ord)
							e.targets[k] = &Target{Key: k, pkg: p, lit: lit, sig: p.TypesInfo.TypeOf(lit).(*types.Signature)}
							e.litKeys[lit] = k
						}
					}
				case *ast.GenDecl:
					if x.Tok != token.VAR {
						continue
					}
					for _, sp := range x.Specs {
						vs := sp.(*ast.ValueSpec)
						for i, n := range vs.Names {
							v, ok := p.TypesInfo.Defs[n].(*types.Var)
							if !ok {
								continue
							}
							g := &globalInfo{pkg: p}
							if i < len(vs.Values) && len(vs.Values) == len(vs.Names) {
								g.init = vs.Values[i]
							} else if len(vs.Values) > 0 {
								g.assigned = true
							}
							e.globals[v] = g
							if g.init != nil {
								key := p.Name + "." + n.Name
								for ord, lit := range e.numberLits(key, g.init, p) {
									k := fmt.Sprintf("%s$%d", key, ord)
									e.targets[k] = &Target{Key: k, pkg: p, lit: lit, sig: p.TypesInfo.TypeOf(lit).(*types.Signature)}
								}
							}
						}
					}
				}
			}
		}
	}
	// which globals are assigned anywhere?
	for _, p := range e.pkgs {
		for _, f := range p.Syntax {
			ast.Inspect(f, func(n ast.Node) bool {
				mark := func(x ast.Expr) {
					for {
						switch y := x.(type) {
						case *ast.ParenExpr:
							x = y.X
							continue
						case *ast.IndexExpr:
							x = y.X
							continue
						case *ast.SelectorExpr:
							if _, ok := p.TypesInfo.Selections[y]; ok {
								x = y.X
								continue
							}
							x = y.Sel
							continue
						case *ast.StarExpr:
							x = y.X
							continue
						case *ast.Ident:
							if v, ok := p.TypesInfo.ObjectOf(y).(*types.Var); ok {
								if g, ok := e.globals[v]; ok {
									g.assigned = true
								}
							}
						}
						return
					}
				}
				switch s := n.(type) {
				case *ast.AssignStmt:
					if s.Tok != token.DEFINE {
						for _, l := range s.Lhs {
							mark(l)
						}
					}
				case *ast.IncDecStmt:
					mark(s.X)
				case *ast.UnaryExpr:
					if s.Op == token.AND {
						mark(s.X)
					}
				}
				return true
			})
		}
	}
	cs, err := loadContracts(cfiles, cpkgs)
	if err != nil {
		return nil, err
	}
	e.contracts = cs
	// bind
	for key, fs := range cs.Funcs {
		if fs.IsLemma {
			e.targets[key] = &Target{Key: key, spec: fs, pkg: e.pkgByName(fs.Pkg)}
			continue
		}
		if fs.External {
			continue
		}
		if i := strings.Index(key, "@"); i >= 0 {
			// case contract: same function, verified separately under its own precondition
			base, ok := e.targets[key[:i]]
			if !ok {
				e.unbound = append(e.unbound, unboundContract{key, fs, fmt.Sprintf("%s:%d: case contract %s does not match any function", fs.File, fs.Line, key)})
				continue
			}
			e.targets[key] = &Target{Key: key, pkg: base.pkg, decl: base.decl, lit: base.lit, sig: base.sig, spec: fs}
			continue
		}
		if t, ok := e.targets[key]; ok {
			t.spec = fs
		} else if e.isFuncVar(key) {
			fs.Trusted = true
			if fs.TrustWhy == "" {
				fs.TrustWhy = "function value built from parser combinators"
			}
		} else if !e.isInterfaceContract(key) {
			// only the properties this contract carries are affected (reported by the check driver)
			e.unbound = append(e.unbound, unboundContract{key, fs, fmt.Sprintf("%s:%d: contract for %s does not match any function in /repo", fs.File, fs.Line, key)})
		}
	}
	e.loadTime = time.Since(t0).Seconds()
	return e, nil
}

func (e *Engine) pkgByName(n string) *packages.Package {
	for _, p := range e.pkgs {
		if p.Name == n {
			return p
		}
	}
	return nil
}

// verifyLemma proves a pure lemma: requires ==> ensures over fresh variables.
func (e *Engine) verifyLemma(t *Target, c *FnCtx, res *FuncResult) {
	fs := t.spec
	src := "package p\nfunc f(" + fs.LemmaParams + ")"
	f, err := parserParseFile(src)
	if err != nil {
		c.unsupported = append(c.unsupported, "lemma parameters: "+err.Error())
		return
	}
	st := &State{pc: "true", env: map[types.Object]Val{}, heaps: map[string]string{}, alloc: "alloc0"}
	c.entry = st
	sc := &SpecScope{c: c, cur: st, vars: map[string]Val{}}
	fd := f.Decls[0].(*ast.FuncDecl)
	for _, fl := range fd.Type.Params.List {
		tn := exprString(fl.Type)
		for _, n := range fl.Names {
			var v Val
			switch tn {
			case "int":
				v = vInt(c.fresh(n.Name, "Int"))
			case "bool":
				v = vBool(c.fresh(n.Name, "Bool"))
			default:
				ty := sc.lookupType(tn)
				if ty == nil {
					c.unsupported = append(c.unsupported, "lemma parameter type "+tn)
					return
				}
				v = c.freshVal(ty, n.Name)
				for _, fct := range c.typeFacts(v) {
					c.fact(fct)
				}
			}
			sc.vars[n.Name] = v
			c.paramVals[n.Name] = v
		}
	}
	for _, r := range fs.Requires {
		c.fact(sc.boolOf(r.Expr))
	}
	c.obls = append(c.obls, &Obligation{Name: t.Key + "/vacuity/pre", Kind: "vacuity", Func: t.Key, NCmds: len(c.cmds), PC: "true", Prop: "false", Text: "lemma hypotheses are satisfiable", ctx: c, Vacuity: true, Props: c.curProps})
	for i, en := range fs.Ensures {
		name := fmt.Sprintf("post#%d", i+1)
		if en.Label != "" {
			name = "post:" + en.Label
		}
		c.obligeNamed(st, "lemma", name, sc.boolOf(en.Expr), "lemma "+en.Src, token.NoPos)
	}
}

func (e *Engine) isInterfaceContract(key string) bool {
	parts := strings.Split(key, ".")
	if len(parts) != 3 {
		return false
	}
	for _, p := range e.pkgs {
		if p.Name == parts[0] {
			if o := p.Types.Scope().Lookup(parts[1]); o != nil {
				if _, ok := o.Type().Underlying().(*types.Interface); ok {
					return true
				}
			}
		}
	}
	return false
}

func declKey(d *ast.FuncDecl) string {
	if d.Recv != nil && len(d.Recv.List) == 1 {
		t := d.Recv.List[0].Type
		if s, ok := t.(*ast.StarExpr); ok {
			t = s.X
		}
		if id, ok := t.(*ast.Ident); ok {
			return id.Name + "." + d.Name.Name
		}
	}
	return d.Name.Name
}

// ---------------------------------------------------------------------------

type FuncResult struct {
	Key         string
	Obls        []*Obligation
	Unsupported []string
	Unmodelled  []string
	Trusted     []string
	Deps        []string
	GenTime     float64
	ParamTerms  []paramTerm
	RangeKeys   map[int]string
	ctx         *FnCtx
}

type unboundContract struct {
	key  string
	spec *FuncSpec
	msg  string
}

type paramTerm struct {
	Name string
	Val  Val
	Type types.Type
}

func (e *Engine) newCtx(t *Target) *FnCtx {
	if t.pkg == nil {
		t.pkg = e.pkgs[0]
	}
	c := &FnCtx{eng: e, w: e.w, pkg: t.pkg, info: t.pkg.TypesInfo, fname: t.Key, spec: t.spec,
		declared: map[string]bool{}, counts: map[string]int{}, paramVals: map[string]Val{}, paramObjs: map[string]types.Object{},
		unmodelled: map[string]bool{}, trusted: map[string]bool{}, strLits: map[string]string{}, factCache: map[string]bool{},
		ghost: map[string]Val{}, ghostFns: map[string]string{}, boxed: map[types.Object]bool{}, isMacro: map[string]bool{}, knownInts: map[string]int64{}, axiomsDone: map[string]bool{}, deps: map[string]bool{}, callHeapKeys: map[string]bool{}, sig: t.sig}
	if t.decl != nil {
		c.decl = t.decl
	} else if t.lit != nil {
		c.decl = t.lit
	}
	c.curLocals = map[string]bool{}
	for _, l := range localsOf(t) {
		c.curLocals[l.Name] = true
	}
	c.baseRangeKey = e.rangeKeyBase[t.Key]
	if bl, ok := e.loopsBase[t.Key]; ok {
		c.loopRemap = loopMap(bl, loopsOf(t))
	}
	if base, ok := e.localsBase[t.Key]; ok {
		if m := renameMap(base, localsOf(t)); len(m) > 0 {
			c.renames = m
			if e.renamesUsed == nil {
				e.renamesUsed = map[string]map[string]string{}
			}
			e.renamesUsed[t.Key] = m
		}
	}
	return c
}

func (e *Engine) verifyFunc(t *Target) (res *FuncResult) {
	t0 := time.Now()
	c := e.newCtx(t)
	res = &FuncResult{Key: t.Key, ctx: c}
	defer func() {
		if r := recover(); r != nil {
			c.unsupported = append(c.unsupported, fmt.Sprintf("internal error while translating: %v", r))
			if os.Getenv("GVC_DEBUG") != "" {
				panic(r)
			}
		}
		res.Obls = c.obls
		res.RangeKeys = c.rangeKeys
		res.Unsupported = c.unsupported
		for k := range c.unmodelled {
			res.Unmodelled = append(res.Unmodelled, k)
		}
		for k := range c.trusted {
			res.Trusted = append(res.Trusted, k)
		}
		for k := range c.deps {
			res.Deps = append(res.Deps, k)
		}
		sort.Strings(res.Unmodelled)
		sort.Strings(res.Trusted)
		sort.Strings(res.Deps)
		res.GenTime = time.Since(t0).Seconds()
	}()
	fs := t.spec
	if fs != nil {
		c.curProps = fs.Props
	}
	c.declare("alloc0", nil, "Int")
	c.declare("nilFn", nil, "Fn")
	c.declare("nilMap", nil, "MapV")
	c.declare("strEmpty", nil, "Str")
	c.fact("(= (slen strEmpty) 0)")
	c.fact("(> alloc0 0)")
	e.emitAxioms(c)
	if fs != nil && fs.IsLemma {
		e.verifyLemma(t, c, res)
		return
	}
	st := &State{pc: "true", env: map[types.Object]Val{}, heaps: map[string]string{}, alloc: "alloc0"}
	c.entry = st.clone()
	sig := t.sig
	bindParam := func(o *types.Var, specName string) {
		v := c.freshVal(o.Type(), "in_"+o.Name())
		for _, f := range c.typeFacts(v) {
			c.fact(f)
		}
		c.refsOld(v)
		st.env[o] = v
		c.entry.env[o] = v
		if specName != "" && specName != "_" {
			c.paramVals[specName] = v
			c.paramObjs[specName] = o
		}
		if o.Name() != "" && o.Name() != "_" {
			if _, dup := c.paramVals[o.Name()]; !dup {
				c.paramVals[o.Name()] = v
				c.paramObjs[o.Name()] = o
			}
		}
		res.ParamTerms = append(res.ParamTerms, paramTerm{Name: o.Name(), Val: v, Type: o.Type()})
	}
	if sig.Recv() != nil {
		sn := ""
		if fs != nil {
			sn = fs.Recv
		}
		bindParam(sig.Recv(), sn)
	}
	for i := 0; i < sig.Params().Len(); i++ {
		sn := ""
		if fs != nil && i < len(fs.Params) {
			sn = fs.Params[i]
		}
		bindParam(sig.Params().At(i), sn)
	}
	for i := 0; i < sig.Results().Len(); i++ {
		r := sig.Results().At(i)
		if r.Name() != "" {
			st.env[r] = c.w.zero(r.Type())
		}
	}
	if t.lit != nil {
		// captured variables of a function literal: arbitrary values, fixed at entry
		seen := map[types.Object]bool{}
		ast.Inspect(t.lit.Body, func(n ast.Node) bool {
			id, ok := n.(*ast.Ident)
			if !ok {
				return true
			}
			v, ok := c.info.Uses[id].(*types.Var)
			if !ok || seen[v] || v.IsField() || v.Pkg() == nil {
				return true
			}
			if v.Parent() == v.Pkg().Scope() {
				return true
			}
			if v.Pos() >= t.lit.Pos() && v.Pos() <= t.lit.End() {
				return true
			}
			seen[v] = true
			val := c.freshVal(v.Type(), "cap_"+v.Name())
			for _, f := range c.typeFacts(val) {
				c.fact(f)
			}
			c.refsOld(val)
			st.env[v] = val
			c.entry.env[v] = val
			if _, dup := c.paramVals[v.Name()]; !dup {
				c.paramVals[v.Name()] = val
				c.paramObjs[v.Name()] = v
			}
			return true
		})
	}
	if fs != nil {
		if fs.Assigns != "" {
			c.autoFrame = true
			if fs.Assigns != "nothing" {
				esc := c.specScopeAt(st)
				for k, v := range c.paramVals {
					esc.vars[k] = v
				}
				for _, item := range splitTop(fs.Assigns, ',') {
					if m := heapItemRe.FindStringSubmatch(strings.TrimSpace(item)); m != nil {
						if t := esc.lookupType(m[1]); t != nil {
							c.frameWhole = append(c.frameWhole, c.elemKey(t))
						}
						continue
					}
					ex, err := parseSpecExpr(item)
					if err != nil {
						c.unsupported = append(c.unsupported, "bad assigns clause")
						continue
					}
					c.frameExcept = append(c.frameExcept, esc.evalTarget(ex))
				}
			}
		}
		sc := c.specScopeAt(st)
		for k, v := range c.paramVals {
			sc.vars[k] = v
		}
		sc.old = nil
		for _, r := range fs.Requires {
			c.fact(sc.boolOf(r.Expr))
		}
		for _, d := range fs.Defines {
			c.trusted["definitional axiom in the contract of "+t.Key+": "+oneLine(d.Src)] = true
			mentionsResult := false
			for _, rn := range fs.Results {
				if rn != "_" && regexp.MustCompile(`\b`+rn+`\b`).MatchString(d.Src) {
					mentionsResult = true
				}
			}
			if mentionsResult {
				continue // about the result: only meaningful to callers
			}
			c.fact(sc.boolOf(d.Expr))
		}
		for _, u := range fs.Uses {
			c.useLemma(st, u)
		}
		// vacuity: the precondition must be satisfiable
		o := &Obligation{Name: t.Key + "/vacuity/pre", Kind: "vacuity", Func: t.Key, NCmds: len(c.cmds), PC: "true", Prop: "false", Text: "precondition is satisfiable", ctx: c, Vacuity: true, Props: c.curProps}
		c.obls = append(c.obls, o)
	}
	if fs != nil && fs.Trusted {
		return
	}
	var body *ast.BlockStmt
	if t.decl != nil {
		body = t.decl.Body
	} else {
		body = t.lit.Body
	}
	if body == nil {
		c.unsupported = append(c.unsupported, "function without body")
		return
	}
	c.sigStack = append(c.sigStack, sig)
	var rets []retExit
	c.retStack = append(c.retStack, &rets)
	c.findBoxed(body, c.info)
	end := c.execBlock(st, body.List)
	var outs []*State
	if end != nil {
		outs = append(outs, end)
	}
	for _, r := range rets {
		for i := 0; i < sig.Results().Len() && i < len(r.vals); i++ {
			r.st.env[sig.Results().At(i)] = r.vals[i]
		}
		outs = append(outs, r.st)
	}
	// clauses checked at every return separately
	if fs != nil {
		for ei, en := range fs.Ensures {
			if !en.Each {
				continue
			}
			for ri, o := range outs {
				esc := &SpecScope{c: c, cur: o, old: c.entry, vars: map[string]Val{}, oldVars: map[string]Val{}}
				for k, v := range c.paramVals {
					esc.vars[k] = v
					esc.oldVars[k] = v
				}
				for i := 0; i < sig.Results().Len(); i++ {
					if i < len(fs.Results) {
						esc.vars[fs.Results[i]] = o.env[sig.Results().At(i)]
					}
				}
				name := fmt.Sprintf("post#%d@ret%d", ei+1, ri+1)
				if en.Label != "" {
					name = fmt.Sprintf("post:%s@ret%d", en.Label, ri+1)
				}
				c.obligeNamed(o, "post", name, esc.boolOf(en.Expr), "ensures "+en.Src, token.NoPos)
			}
		}
	}
	final := c.merge(outs)
	if final == nil {
		if fs != nil && len(fs.Ensures) > 0 {
			c.unsupported = append(c.unsupported, "no return path is reachable")
		}
		return
	}
	if fs == nil {
		return
	}
	// vacuity: some return is reachable
	c.obls = append(c.obls, &Obligation{Name: t.Key + "/vacuity/exit", Kind: "vacuity", Func: t.Key, NCmds: len(c.cmds), PC: final.pc, Prop: "false", Text: "some return path is reachable under the precondition", ctx: c, Vacuity: true, Props: c.curProps})
	for _, gf := range fs.GhostFinal {
		c.ghostAssignFinal(final, gf, sig, fs)
	}
	sc := &SpecScope{c: c, cur: final, old: c.entry, vars: map[string]Val{}, oldVars: map[string]Val{}}
	for k, v := range c.paramVals {
		sc.vars[k] = v
		sc.oldVars[k] = v
	}
	for i := 0; i < sig.Results().Len(); i++ {
		if i < len(fs.Results) {
			sc.vars[fs.Results[i]] = final.env[sig.Results().At(i)]
		}
		if n := sig.Results().At(i).Name(); n != "" {
			if _, dup := sc.vars[n]; !dup {
				sc.vars[n] = final.env[sig.Results().At(i)]
			}
		}
	}
	for i, en := range fs.Ensures {
		if en.Each {
			continue
		}
		name := fmt.Sprintf("post#%d", i+1)
		if en.Label != "" {
			name = "post:" + en.Label
		}
		t := sc.boolOf(en.Expr)
		o := c.obligeNamed(final, "post", name, t, "ensures "+en.Src, token.NoPos)
		o.Spec = en.Expr
		o.scope = sc
	}
	if fs.Assigns != "" {
		t := c.frameFormula(c.entry, final, "alloc0", c.frameExcept)
		c.obligeNamed(final, "frame", "frame", t, "assigns "+fs.Assigns+": all other memory allocated before the call is unchanged", token.NoPos)
	}
	return
}

// refsOld states that references reachable from an input value were allocated before the call.
func (c *FnCtx) refsOld(v Val) {
	switch v.K {
	case KSlice:
		c.fact(sx("<", v.ref(), "alloc0"))
	case KPtr:
		c.fact(sx("<", v.S, "alloc0"))
	case KStruct, KArray:
		for _, f := range v.F {
			c.refsOld(f)
		}
	}
}

func (e *Engine) emitAxioms(c *FnCtx) {
	// axioms are emitted lazily by useAxiomsFor; nothing global yet
}

// ---------------------------------------------------------------------------
// discharging

func (o *Obligation) query() string {
	var b strings.Builder
	b.WriteString(smtPrelude)
	for _, cmd := range o.ctx.cmds[:o.NCmds] {
		b.WriteString(cmd)
		b.WriteByte('\n')
	}
	if o.KF != nil && o.KF.guardTerm != "" {
		b.WriteString(sx("assert", sNot(o.KF.guardTerm)))
		b.WriteByte('\n')
	}
	b.WriteString(sx("assert", o.PC))
	b.WriteByte('\n')
	if !o.Vacuity {
		b.WriteString(sx("assert", sNot(o.Prop)))
		b.WriteByte('\n')
	}
	return b.String()
}

func (e *Engine) discharge(obls []*Obligation, workers int) {
	var wg sync.WaitGroup
	ch := make(chan *Obligation)
	for i := 0; i < workers; i++ {
		wg.Add(1)
		go func() {
			defer wg.Done()
			for o := range ch {
				e.dischargeOne(o)
			}
		}()
	}
	for _, o := range obls {
		ch <- o
	}
	close(ch)
	wg.Wait()
}

func (e *Engine) dischargeOne(o *Obligation) {
	if o.Prop == "true" && !o.Vacuity {
		o.Decided = "discharged"
		o.Result = SolverResult{Status: "unsat", Solver: "trivial"}
		return
	}
	to := e.timeoutS
	if o.Vacuity {
		to = 3
	}
	r := runQuery(o.query(), nil, to)
	if r.Status != "sat" && r.Status != "unsat" && !o.Vacuity {
		// retry once with a longer timeout
		r2 := runQuery(o.query(), nil, e.timeoutS*5)
		r2.Time += r.Time
		r = r2
	}
	o.Result = r
	if o.Vacuity {
		if r.Status == "unsat" {
			o.Decided = "failed"
		} else {
			o.Decided = "discharged"
		}
		return
	}
	switch r.Status {
	case "unsat":
		o.Decided = "discharged"
	case "sat":
		o.Decided = "failed"
	default:
		o.Decided = "undecided"
	}
}

func (e *Engine) dumpQuery(o *Obligation, dir string) string {
	os.MkdirAll(dir, 0o755)
	f := filepath.Join(dir, smtName(o.Name)+".smt2")
	os.WriteFile(f, []byte(o.query()+"(check-sat)\n"), 0o644)
	return f
}

func parserParseFile(src string) (*ast.File, error) {
	return parser.ParseFile(token.NewFileSet(), "", src, 0)
}

// ghostAssignFinal defines the final version of a ghost function at function exit.
func (c *FnCtx) ghostAssignFinal(st *State, cl *Clause, sig *types.Signature, fs *FuncSpec) {
	key := "G_" + cl.Label
	heapSorts[key] = "Int"
	param := "gx"
	if len(cl.Props) > 0 && cl.Props[0] != "" {
		param = cl.Props[0]
	}
	c.nfresh++
	bv := fmt.Sprintf("%s?%d", param, c.nfresh)
	sc := &SpecScope{c: c, cur: st, old: c.entry, vars: map[string]Val{}, oldVars: map[string]Val{}}
	for k, v := range c.paramVals {
		sc.vars[k] = v
		sc.oldVars[k] = v
	}
	for i := 0; i < sig.Results().Len(); i++ {
		if i < len(fs.Results) {
			sc.vars[fs.Results[i]] = st.env[sig.Results().At(i)]
		}
	}
	sc.vars[param] = vInt(bv)
	sc.bound = map[string]bool{param: true}
	c.openBound = append(c.openBound, bv)
	body := sc.intOf(cl.Expr)
	c.openBound = c.openBound[:len(c.openBound)-1]
	nw := c.newHeapVersion(key)
	c.declared[nw] = true
	c.isMacro[nw] = true
	c.emit(fmt.Sprintf("(define-fun %s ((%s Int)) Int %s)", nw, bv, body))
	st.heaps[key] = nw
}

// findBoxed marks local variables whose address is taken (&x, or a pointer-receiver method
// called on an addressable struct variable): they are modelled in the pointer heap.
func (c *FnCtx) findBoxed(body ast.Node, info *types.Info) {
	ast.Inspect(body, func(n ast.Node) bool {
		switch x := n.(type) {
		case *ast.UnaryExpr:
			if x.Op == token.AND {
				if id, ok := unparen(x.X).(*ast.Ident); ok {
					if o, ok := info.ObjectOf(id).(*types.Var); ok && o.Parent() != o.Pkg().Scope() {
						c.boxed[o] = true
					}
				}
			}
		case *ast.CallExpr:
			if se, ok := unparen(x.Fun).(*ast.SelectorExpr); ok {
				if sel, ok := info.Selections[se]; ok && sel.Kind() == types.MethodVal {
					if fn, ok := sel.Obj().(*types.Func); ok {
						sig := fn.Type().(*types.Signature)
						if sig.Recv() != nil {
							_, wantPtr := sig.Recv().Type().Underlying().(*types.Pointer)
							if id, ok := unparen(se.X).(*ast.Ident); ok && wantPtr {
								if o, ok := info.ObjectOf(id).(*types.Var); ok && o.Parent() != o.Pkg().Scope() {
									if _, isPtr := o.Type().Underlying().(*types.Pointer); !isPtr {
										if _, isIf := o.Type().Underlying().(*types.Interface); !isIf {
											c.boxed[o] = true
										}
									}
								}
							}
						}
					}
				}
			}
		}
		return true
	})
}

func (e *Engine) isRepoPkg(path string) bool {
	for _, p := range e.pkgs {
		if p.PkgPath == path {
			return true
		}
	}
	return false
}

// isFuncVar reports whether key names a package-level variable of function type.
func (e *Engine) isFuncVar(key string) bool {
	parts := strings.Split(key, ".")
	if len(parts) != 2 {
		return false
	}
	for _, p := range e.pkgs {
		if p.Name == parts[0] {
			if v, ok := p.Types.Scope().Lookup(parts[1]).(*types.Var); ok {
				_, isFn := v.Type().Underlying().(*types.Signature)
				return isFn
			}
		}
	}
	return false
}

// litBaseline: claims/lits.json as recorded when the contracts were written (set by the check
// driver before loading).  Contracts name the k-th function literal of a function (F$k); when
// the number of literals has changed, the current literals are aligned with the recorded ones by
// a fingerprint (signature and first statement), so that a literal added or removed elsewhere in
// the function does not re-bind the contracts of the others.
var litBaseline map[string][]string

func (e *Engine) numberLits(key string, root ast.Node, p *packages.Package) map[int]*ast.FuncLit {
	var lits []*ast.FuncLit
	ast.Inspect(root, func(n ast.Node) bool {
		if lit, ok := n.(*ast.FuncLit); ok {
			lits = append(lits, lit)
		}
		return true
	})
	out := map[int]*ast.FuncLit{}
	if len(lits) == 0 {
		return out
	}
	fps := make([]string, len(lits))
	for i, lit := range lits {
		fp := types.TypeString(p.TypesInfo.TypeOf(lit), func(q *types.Package) string { return q.Name() })
		if lit.Body != nil && len(lit.Body.List) > 0 {
			first := nodeStr(lit.Body.List[0])
			if len(first) > 120 {
				first = first[:120]
			}
			fp += " | " + first
		}
		fps[i] = fp
	}
	if e.litFPs == nil {
		e.litFPs = map[string][]string{}
	}
	e.litFPs[key] = fps
	if base, ok := litBaseline[key]; ok && len(base) != len(fps) {
		if m := loopMap(base, fps); m != nil {
			for i, lit := range lits {
				out[m[i+1]] = lit
			}
			return out
		}
	}
	for i, lit := range lits {
		out[i+1] = lit
	}
	return out
}
