package main

// Symbolic execution of the Go subset over the typed AST, with state merging.

import (
	"bytes"
	"fmt"
	"go/ast"
	"go/printer"
	"go/token"
	"go/types"
	"io"
	"sort"
	"strconv"
	"strings"
)

func printer_Fprint(w io.Writer, n ast.Node) {
	var b bytes.Buffer
	printer.Fprint(&b, token.NewFileSet(), n)
	s := b.String()
	s = strings.Join(strings.Fields(s), " ")
	io.WriteString(w, s)
}

// lookupByName finds a program variable by name in a state (innermost declaration wins).
func (c *FnCtx) lookupByName(st *State, name string) (Val, bool) {
	if nn, ok := c.renames[name]; ok {
		// a local the contract names was renamed since the contracts were written (bound by
		// declaration position, see locals.go)
		name = nn
	}
	if st != nil {
		var best types.Object
		for o := range st.env {
			if o.Name() == name {
				if best == nil || o.Pos() > best.Pos() {
					best = o
				}
			}
		}
		if best != nil {
			return st.env[best], true
		}
	}
	if v, ok := c.ghost[name]; ok {
		return v, true
	}
	// captured variable of a function literal / package-level object
	if c.decl != nil {
		if sc := c.pkg.Types.Scope().Innermost(c.decl.Pos()); sc != nil {
			if _, o := sc.LookupParent(name, c.decl.End()); o != nil {
				return c.objVal(st, o)
			}
		}
	}
	if o := c.pkg.Types.Scope().Lookup(name); o != nil {
		return c.objVal(st, o)
	}
	return Val{}, false
}

func (c *FnCtx) objVal(st *State, o types.Object) (Val, bool) {
	switch x := o.(type) {
	case *types.Const:
		return c.constVal(x.Val(), x.Type()), true
	case *types.Var:
		if st != nil {
			if v, ok := st.env[x]; ok {
				return v, true
			}
		}
		if x.Parent() == x.Pkg().Scope() {
			return c.globalVar(x)
		}
		// captured variable: arbitrary value of its type, created lazily and shared
		if st != nil && c.entry != nil {
			v := c.freshVal(x.Type(), "cap_"+x.Name())
			for _, f := range c.typeFacts(v) {
				c.fact(f)
			}
			c.entry.env[x] = v
			st.env[x] = v
			return v, true
		}
	case *types.Nil:
		return Val{K: KIfc, S: "nilIfc"}, true
	}
	return Val{}, false
}

// globalVar evaluates the initializer of a package-level variable that is never reassigned.
func (c *FnCtx) globalVar(v *types.Var) (Val, bool) {
	if cv, ok := c.globalCache[v]; ok {
		return cv, true
	}
	val, ok := c.globalVar1(v)
	if ok {
		if c.globalCache == nil {
			c.globalCache = map[*types.Var]Val{}
		}
		c.globalCache[v] = val
	}
	return val, ok
}

func (c *FnCtx) globalVar1(v *types.Var) (Val, bool) {
	g, ok := c.eng.globals[v]
	if !ok || g.assigned {
		val := c.freshVal(v.Type(), "glob_"+v.Name())
		return val, true
	}
	if g.init == nil {
		return c.w.zero(v.Type()), true
	}
	savedInfo, savedPkg := c.info, c.pkg
	c.info, c.pkg = g.pkg.TypesInfo, g.pkg
	defer func() { c.info, c.pkg = savedInfo, savedPkg }()
	switch g.init.(type) {
	case *ast.CompositeLit, *ast.BasicLit, *ast.UnaryExpr, *ast.BinaryExpr, *ast.Ident:
		st := &State{pc: "true", env: map[types.Object]Val{}, heaps: map[string]string{}, alloc: "alloc0"}
		nobl := len(c.obls)
		val := c.evalExpr(st, g.init)
		c.obls = c.obls[:nobl]
		val.T = v.Type()
		c.trusted["package-level variable "+v.Pkg().Name()+"."+v.Name()+" holds its initial value (no assignment to it exists in the loaded packages)"] = true
		return val, true
	}
	val := c.freshVal(v.Type(), "glob_"+v.Name())
	return val, true
}

func (c *FnCtx) typeOf(e ast.Expr) types.Type {
	if tv, ok := c.info.Types[e]; ok {
		return tv.Type
	}
	if id, ok := e.(*ast.Ident); ok {
		if o := c.info.ObjectOf(id); o != nil {
			return o.Type()
		}
	}
	return nil
}

func isIfaceType(t types.Type) bool {
	if t == nil {
		return false
	}
	_, ok := t.Underlying().(*types.Interface)
	return ok
}

// convertTo converts value v (of Go type from) to Go type to.
func (c *FnCtx) convertTo(st *State, v Val, from, to types.Type) Val {
	if to == nil || from == nil {
		return v
	}
	if isIfaceType(to) {
		if v.K == KIfc {
			return v
		}
		if b, ok := from.Underlying().(*types.Basic); ok && b.Kind() == types.UntypedNil {
			return Val{K: KIfc, S: "nilIfc", T: to}
		}
		r := c.box(v, from)
		r.T = to
		return r
	}
	if b, ok := from.Underlying().(*types.Basic); ok && b.Kind() == types.UntypedNil {
		return c.w.zero(to)
	}
	switch tu := to.Underlying().(type) {
	case *types.Basic:
		if tu.Info()&types.IsString != 0 {
			if v.K == KSlice {
				// string(bytes)
				s := c.fresh("str", "Str")
				c.assume(st, sx("=", sx("slen", s), v.ln()))
				h := c.heapSym(st, c.elemKey(v.Elem), "Int", 2)
				c.assume(st, fmt.Sprintf("(forall ((k Int)) (! (=> (and (<= 0 k) (< k %s)) (= (sat %s k) (%s %s (+ %s k)))) :pattern ((sat %s k))))", v.ln(), s, h, v.ref(), v.off(), s))
				return Val{K: KStr, S: s, T: to}
			}
			if v.K == KInt {
				// string(c) for a byte/rune value: a one-character string (ASCII range is exact)
				s := c.fresh("str", "Str")
				c.assume(st, sImp(sAnd(sx("<=", "0", v.S), sx("<", v.S, "128")), sAnd(sx("=", sx("slen", s), "1"), sx("=", sx("sat", s, "0"), v.S))))
				return Val{K: KStr, S: s, T: to}
			}
		}
		if tu.Info()&types.IsInteger != 0 && v.K == KInt {
			r := v
			r.T = to
			// narrowing conversions are not modelled exactly: flag when the target is narrower
			if fb, ok := from.Underlying().(*types.Basic); ok {
				if rangeNarrower(tu, fb) {
					f := typeRangeFact(to, v.S)
					if f != "" {
						c.oblige(st, "conv", f, "conversion to "+to.String()+" keeps the value", token.NoPos)
					}
				}
			}
			return r
		}
	case *types.Slice:
		if v.K == KStr {
			// []byte(s)
			ln := sx("slen", v.S)
			sl := c.makeSlice(st, tu.Elem(), to, ln, ln, false)
			c.copyFromStr(st, sl.ref(), "0", v.S, "0", ln)
			return sl
		}
		if v.K == KSlice {
			r := v
			r.T = to
			return r
		}
	}
	r := v
	r.T = to
	return r
}

func rangeNarrower(to, from *types.Basic) bool {
	size := func(b *types.Basic) int {
		switch b.Kind() {
		case types.Int8, types.Uint8:
			return 8
		case types.Int16, types.Uint16:
			return 16
		case types.Int32, types.Uint32:
			return 32
		case types.UntypedInt, types.UntypedRune:
			return 0
		}
		return 64
	}
	if size(from) == 0 {
		return false
	}
	unsigned := func(b *types.Basic) bool { return b.Info()&types.IsUnsigned != 0 }
	if size(to) < size(from) {
		return true
	}
	if unsigned(to) && !unsigned(from) {
		return true
	}
	return false
}

// ---------------------------------------------------------------------------
// expressions

func (c *FnCtx) evalExpr(st *State, e ast.Expr) Val {
	if tv, ok := c.info.Types[e]; ok && tv.Value != nil {
		return c.constVal(tv.Value, tv.Type)
	}
	switch x := e.(type) {
	case *ast.ParenExpr:
		return c.evalExpr(st, x.X)
	case *ast.Ident:
		if x.Name == "_" {
			return Val{K: KUnit}
		}
		o := c.info.ObjectOf(x)
		if o == nil {
			c.unsupport("unresolved identifier "+x.Name, x.Pos())
			return vInt("0")
		}
		if c.boxed[o] {
			if pv, ok := st.env[o]; ok && pv.K == KPtr {
				return c.readPtr(st, o.Type(), pv.S)
			}
		}
		if v, ok := c.objVal(st, o); ok {
			return v
		}
		if fn, ok := o.(*types.Func); ok {
			return Val{K: KFn, S: c.fnConst(fn), T: fn.Type()}
		}
		c.unsupport("identifier "+x.Name, x.Pos())
		return c.freshVal(o.Type(), x.Name)
	case *ast.BasicLit:
		c.unsupport("literal "+x.Value, x.Pos())
		return vInt("0")
	case *ast.FuncLit:
		c.litOrd++
		s := c.fresh("closure", "Fn")
		cl := &closureLit{lit: x, ord: c.litOrd, info: c.info, captured: map[string]Val{}}
		// values of the captured variables at creation (used when the literal has a contract)
		ast.Inspect(x.Body, func(n ast.Node) bool {
			id, ok := n.(*ast.Ident)
			if !ok {
				return true
			}
			if v, ok := c.info.Uses[id].(*types.Var); ok && !v.IsField() {
				if v.Pos() < x.Pos() || v.Pos() > x.End() {
					if val, ok := st.env[v]; ok {
						if c.boxed[v] && val.K == KPtr {
							val = c.readPtr(st, v.Type(), val.S)
						}
						cl.captured[v.Name()] = val
					}
				}
			}
			return true
		})
		return Val{K: KFn, S: s, T: c.typeOf(x), Lit: cl}
	case *ast.CompositeLit:
		return c.evalCompositeLit(st, x)
	case *ast.UnaryExpr:
		switch x.Op {
		case token.NOT:
			return vBool(sNot(c.evalExpr(st, x.X).S))
		case token.SUB:
			v := c.evalExpr(st, x.X)
			return Val{K: KInt, S: sx("-", v.S), T: c.typeOf(e)}
		case token.ADD:
			return c.evalExpr(st, x.X)
		case token.XOR:
			v := c.evalExpr(st, x.X)
			return Val{K: KInt, S: sx("-", sx("-", v.S), "1"), T: c.typeOf(e)}
		case token.AND:
			if cl, ok := x.X.(*ast.CompositeLit); ok {
				v := c.evalCompositeLit(st, cl)
				t := c.typeOf(cl)
				addr := c.allocRef(st)
				c.writePtr(st, t, addr, v)
				return Val{K: KPtr, S: addr, T: c.typeOf(e), Elem: t}
			}
			if id, ok := unparen(x.X).(*ast.Ident); ok {
				if o := c.info.ObjectOf(id); o != nil && c.boxed[o] {
					if pv, ok := st.env[o]; ok {
						return pv
					}
				}
			}
			c.unsupport("address-of", x.Pos())
			return c.freshVal(c.typeOf(e), "addr")
		}
	case *ast.BinaryExpr:
		return c.evalBinary(st, x)
	case *ast.SelectorExpr:
		if sel, ok := c.info.Selections[x]; ok {
			switch sel.Kind() {
			case types.FieldVal:
				base := c.evalExpr(st, x.X)
				return c.selectField(st, base, sel)
			case types.MethodVal:
				c.unsupport("method value", x.Pos())
				return c.freshVal(c.typeOf(e), "methval")
			}
		}
		// qualified identifier
		o := c.info.ObjectOf(x.Sel)
		if o != nil {
			if v, ok := c.objVal(st, o); ok {
				return v
			}
			if fn, ok := o.(*types.Func); ok {
				return Val{K: KFn, S: c.fnConst(fn), T: fn.Type()}
			}
		}
		c.unsupport("selector "+nodeStr(x), x.Pos())
		return c.freshVal(c.typeOf(e), "sel")
	case *ast.IndexExpr:
		base := c.evalExpr(st, x.X)
		bt := c.typeOf(x.X)
		if _, isMap := bt.Underlying().(*types.Map); isMap {
			c.evalExpr(st, x.Index)
			c.unmodelled["map index"] = true
			v := c.freshVal(c.typeOf(e), "mapval")
			for _, f := range c.typeFacts(v) {
				c.fact(f)
			}
			return v
		}
		idx := c.evalExpr(st, x.Index)
		return c.indexVal(st, base, idx.S, x.Pos(), nodeStr(x))
	case *ast.SliceExpr:
		return c.evalSliceExpr(st, x)
	case *ast.StarExpr:
		p := c.evalExpr(st, x.X)
		c.oblige(st, "nil", sNot(sx("=", p.S, "0")), "nil dereference "+nodeStr(x), x.Pos())
		return c.readPtr(st, p.Elem, p.S)
	case *ast.TypeAssertExpr:
		v := c.evalExpr(st, x.X)
		t := c.typeOf(x.Type)
		ok := c.tagTest(v.S, t)
		c.oblige(st, "assert", ok, "type assertion "+nodeStr(x), x.Pos())
		if isIfaceType(t) {
			return v
		}
		r := c.payload(v.S, t)
		r.T = t
		for _, f := range c.typeFacts(r) {
			c.assume(st, sImp(ok, f))
		}
		return r
	case *ast.CallExpr:
		return c.evalCall(st, x)
	case *ast.KeyValueExpr:
	}
	c.unsupport(fmt.Sprintf("expression %T", e), e.Pos())
	if t := c.typeOf(e); t != nil {
		return c.freshVal(t, "unk")
	}
	return vInt("0")
}

type closureLit struct {
	lit      *ast.FuncLit
	ord      int
	info     *types.Info
	captured map[string]Val
}

func (c *FnCtx) fnConst(fn *types.Func) string {
	name := "fn_" + smtName(fn.FullName())
	c.declare(name, nil, "Fn")
	c.declare("nilFn", nil, "Fn")
	c.fact(sNot(sx("=", name, "nilFn")))
	return name
}

func (c *FnCtx) selectField(st *State, base Val, sel *types.Selection) Val {
	// follow the selection's index path (handles embedded fields and implicit derefs)
	cur := base
	t := sel.Recv()
	for _, idx := range sel.Index() {
		if p, ok := t.Underlying().(*types.Pointer); ok {
			c.oblige(st, "nil", sNot(sx("=", cur.S, "0")), "nil dereference ."+sel.Obj().Name(), token.NoPos)
			cur = c.readPtr(st, p.Elem(), cur.S)
			t = p.Elem()
		}
		s, ok := t.Underlying().(*types.Struct)
		if !ok || cur.K != KStruct || idx >= len(cur.F) {
			c.unsupport("field selection on "+t.String(), token.NoPos)
			return c.freshVal(sel.Type(), "fld")
		}
		cur = cur.F[idx]
		t = s.Field(idx).Type()
	}
	return cur
}

func (c *FnCtx) indexVal(st *State, base Val, idx string, pos token.Pos, text string) Val {
	switch base.K {
	case KSlice:
		c.oblige(st, "index", sAnd(sx("<=", "0", idx), sx("<", idx, base.ln())), "index in range: "+text, pos)
		return c.readElem(st, base.Elem, base.ref(), sx("+", base.off(), idx))
	case KArray:
		c.oblige(st, "index", sAnd(sx("<=", "0", idx), sx("<", idx, sInt(int64(len(base.F))))), "index in range: "+text, pos)
		return c.arraySelect(base, idx)
	case KStr:
		c.oblige(st, "index", sAnd(sx("<=", "0", idx), sx("<", idx, sx("slen", base.S))), "index in range: "+text, pos)
		t := sx("sat", base.S, idx)
		c.fact(sAnd(sx("<=", "0", t), sx("<=", t, "255")))
		return Val{K: KInt, S: t, T: types.Typ[types.Uint8]}
	case KPtr:
		// pointer to array
		d := c.readPtr(st, base.Elem, base.S)
		return c.indexVal(st, d, idx, pos, text)
	}
	c.unsupport("index of "+text, pos)
	return vInt("0")
}

func (c *FnCtx) evalSliceExpr(st *State, x *ast.SliceExpr) Val {
	base := c.evalExpr(st, x.X)
	lo := "0"
	if x.Low != nil {
		lo = c.evalExpr(st, x.Low).S
	}
	switch base.K {
	case KSlice:
		hi := base.ln()
		if x.High != nil {
			hi = c.evalExpr(st, x.High).S
		}
		mx := base.cp()
		if x.Slice3 && x.Max != nil {
			mx = c.evalExpr(st, x.Max).S
			c.oblige(st, "slice", sAnd(sx("<=", hi, mx), sx("<=", mx, base.cp())), "slice bounds: "+nodeStr(x), x.Pos())
			c.oblige(st, "slice", sAnd(sx("<=", "0", lo), sx("<=", lo, hi)), "slice bounds: "+nodeStr(x), x.Pos())
		} else {
			c.oblige(st, "slice", sAnd(sx("<=", "0", lo), sx("<=", lo, hi), sx("<=", hi, base.cp())), "slice bounds: "+nodeStr(x), x.Pos())
		}
		lo = c.define("lo", "Int", lo)
		r := mkSlice(base.ref(), c.define("off", "Int", sx("+", base.off(), lo)), c.define("len", "Int", sx("-", hi, lo)), c.define("cap", "Int", sx("-", mx, lo)), base.Elem, c.typeOf(x))
		return r
	case KStr:
		hi := sx("slen", base.S)
		if x.High != nil {
			hi = c.evalExpr(st, x.High).S
		}
		c.oblige(st, "slice", sAnd(sx("<=", "0", lo), sx("<=", lo, hi), sx("<=", hi, sx("slen", base.S))), "slice bounds: "+nodeStr(x), x.Pos())
		s := c.fresh("substr", "Str")
		c.assume(st, sx("=", sx("slen", s), sx("-", hi, lo)))
		c.assume(st, fmt.Sprintf("(forall ((k Int)) (! (=> (and (<= 0 k) (< k (- %s %s))) (= (sat %s k) (sat %s (+ %s k)))) :pattern ((sat %s k))))", hi, lo, s, base.S, lo, s))
		return Val{K: KStr, S: s, T: c.typeOf(x)}
	}
	c.unsupport("slice expression on "+nodeStr(x.X), x.Pos())
	return c.freshVal(c.typeOf(x), "slc")
}

func (c *FnCtx) evalCompositeLit(st *State, x *ast.CompositeLit) Val {
	t := c.typeOf(x)
	switch u := t.Underlying().(type) {
	case *types.Struct:
		v := c.w.zero(t)
		v.F = append([]Val(nil), v.F...)
		for i, el := range x.Elts {
			if kv, ok := el.(*ast.KeyValueExpr); ok {
				name := kv.Key.(*ast.Ident).Name
				for j := 0; j < u.NumFields(); j++ {
					if u.Field(j).Name() == name {
						fv := c.evalExpr(st, kv.Value)
						v.F[j] = c.convertTo(st, fv, c.typeOf(kv.Value), u.Field(j).Type())
					}
				}
			} else {
				fv := c.evalExpr(st, el)
				v.F[i] = c.convertTo(st, fv, c.typeOf(el), u.Field(i).Type())
			}
		}
		return v
	case *types.Array:
		v := c.w.zero(t)
		v.F = append([]Val(nil), v.F...)
		for i, el := range x.Elts {
			if _, ok := el.(*ast.KeyValueExpr); ok {
				c.unsupport("keyed array literal", x.Pos())
				continue
			}
			if i < len(v.F) {
				fv := c.evalExpr(st, el)
				v.F[i] = c.convertTo(st, fv, c.typeOf(el), u.Elem())
			}
		}
		return v
	case *types.Slice:
		n := sInt(int64(len(x.Elts)))
		sl := c.makeSlice(st, u.Elem(), t, n, n, false)
		for i, el := range x.Elts {
			if _, ok := el.(*ast.KeyValueExpr); ok {
				c.unsupport("keyed slice literal", x.Pos())
				continue
			}
			fv := c.evalExpr(st, el)
			fv = c.convertTo(st, fv, c.typeOf(el), u.Elem())
			c.writeElem(st, u.Elem(), sl.ref(), sInt(int64(i)), fv)
		}
		return sl
	case *types.Map:
		c.unmodelled["map literal"] = true
		return c.freshVal(t, "maplit")
	}
	c.unsupport("composite literal of "+t.String(), x.Pos())
	return c.freshVal(t, "lit")
}

func (c *FnCtx) evalBinary(st *State, x *ast.BinaryExpr) Val {
	t := c.typeOf(x)
	switch x.Op {
	case token.LAND, token.LOR:
		a := c.evalExpr(st, x.X)
		// evaluate the right operand under the short-circuit guard, in its own branch state
		// (it may contain calls), then join with the branch that skips it
		run, skip := st.clone(), st.clone()
		if x.Op == token.LAND {
			run.pc = c.define("pc", "Bool", sAnd(st.pc, a.S))
			skip.pc = c.define("pc", "Bool", sAnd(st.pc, sNot(a.S)))
		} else {
			run.pc = c.define("pc", "Bool", sAnd(st.pc, sNot(a.S)))
			skip.pc = c.define("pc", "Bool", sAnd(st.pc, a.S))
		}
		b := c.evalExpr(run, x.Y)
		if m := c.merge([]*State{run, skip}); m != nil {
			st.pc, st.env, st.heaps, st.alloc = m.pc, m.env, m.heaps, m.alloc
		}
		if x.Op == token.LAND {
			return vBool(sAnd(a.S, b.S))
		}
		return vBool(sOr(a.S, b.S))
	}
	a, b := c.evalExpr(st, x.X), c.evalExpr(st, x.Y)
	ta, tb := c.typeOf(x.X), c.typeOf(x.Y)
	switch x.Op {
	case token.EQL, token.NEQ:
		// mixed interface / concrete comparison
		isNilT := func(t types.Type) bool {
			bb, ok := t.Underlying().(*types.Basic)
			return ok && bb.Kind() == types.UntypedNil
		}
		if isIfaceType(ta) && !isIfaceType(tb) && !isNilT(tb) && b.K != KIfc {
			b = c.box(b, tb)
		} else if isIfaceType(tb) && !isIfaceType(ta) && !isNilT(ta) && a.K != KIfc {
			a = c.box(a, ta)
		}
		var eq string
		if a.K == KIfc && b.K == KIfc && a.S != "nilIfc" && b.S != "nilIfc" {
			// interface equality: not extensional in this model
			eq = sx("=", a.S, b.S)
			c.unmodelled["interface == interface (compared as opaque identities)"] = true
		} else {
			eq = c.valEq(a, b)
		}
		if x.Op == token.NEQ {
			eq = sNot(eq)
		}
		return vBool(eq)
	case token.LSS, token.LEQ, token.GTR, token.GEQ:
		ops := map[token.Token]string{token.LSS: "<", token.LEQ: "<=", token.GTR: ">", token.GEQ: ">="}
		if a.K == KStr {
			c.unmodelled["string ordering"] = true
			return vBool(c.fresh("strcmp", "Bool"))
		}
		return vBool(sx(ops[x.Op], a.S, b.S))
	case token.ADD:
		if a.K == KStr {
			s := c.fresh("concat", "Str")
			c.assume(st, sx("=", sx("slen", s), sx("+", sx("slen", a.S), sx("slen", b.S))))
			c.assume(st, fmt.Sprintf("(forall ((k Int)) (! (= (sat %s k) (ite (< k (slen %s)) (sat %s k) (sat %s (- k (slen %s))))) :pattern ((sat %s k))))", s, a.S, a.S, b.S, a.S, s))
			return Val{K: KStr, S: s, T: t}
		}
		return c.arith(st, "+", a, b, t, x)
	case token.SUB:
		return c.arith(st, "-", a, b, t, x)
	case token.MUL:
		return c.arith(st, "*", a, b, t, x)
	case token.QUO:
		c.oblige(st, "div", sNot(sx("=", b.S, "0")), "division by zero: "+nodeStr(x), x.Pos())
		return Val{K: KInt, S: sx("tdiv", a.S, b.S), T: t}
	case token.REM:
		c.oblige(st, "div", sNot(sx("=", b.S, "0")), "division by zero: "+nodeStr(x), x.Pos())
		return Val{K: KInt, S: sx("tmod", a.S, b.S), T: t}
	case token.SHR:
		// arithmetic shift right by 63 of an int: sign mask
		if b.S == "63" {
			return Val{K: KInt, S: sIte(sx("<", a.S, "0"), "(- 1)", "0"), T: t}
		}
	case token.AND, token.OR:
		// bit masks with a constant operand on non-negative values: bit-by-bit via div/mod
		mask, val := b, a
		if _, err := strconv.ParseInt(a.S, 10, 64); err == nil {
			mask, val = a, b
		}
		if m, err := strconv.ParseInt(mask.S, 10, 64); err == nil && m >= 0 && m < 1<<16 {
			c.oblige(st, "bits", sx("<=", "0", val.S), "bit operation on a non-negative value: "+nodeStr(x), x.Pos())
			var terms []string
			for k := uint(0); k < 16; k++ {
				if m&(1<<k) == 0 {
					continue
				}
				bit := sx("mod", sx("div", val.S, sInt(1<<k)), "2")
				if x.Op == token.AND {
					terms = append(terms, sx("*", sInt(1<<k), bit))
				} else {
					terms = append(terms, sx("*", sInt(1<<k), sx("-", "1", bit)))
				}
			}
			sum := "0"
			if len(terms) == 1 {
				sum = terms[0]
			} else if len(terms) > 1 {
				sum = sx("+", terms...)
			}
			if x.Op == token.AND {
				return Val{K: KInt, S: sum, T: t}
			}
			return Val{K: KInt, S: sx("+", val.S, sum), T: t}
		}
	case token.XOR:
		// x ^ 0 = x ; x ^ -1 = -x-1  (used by Abs with the sign mask)
		return Val{K: KInt, S: sIte(sx("=", b.S, "0"), a.S, sIte(sx("=", b.S, "(- 1)"), sx("-", sx("-", a.S), "1"), c.fresh("xor", "Int"))), T: t}
	}
	c.unsupport("binary operator "+x.Op.String(), x.Pos())
	return c.freshVal(t, "binop")
}

func (c *FnCtx) arith(st *State, op string, a, b Val, t types.Type, x ast.Expr) Val {
	r := Val{K: KInt, S: sx(op, a.S, b.S), T: t}
	if c.eng.overflowChecks && t != nil {
		if bt, ok := t.Underlying().(*types.Basic); ok && (bt.Kind() == types.Int || bt.Kind() == types.Int64) {
			c.oblige(st, "overflow", sAnd(sx("<=", "(- 9223372036854775808)", r.S), sx("<=", r.S, "9223372036854775807")), "no overflow: "+nodeStr(x), x.Pos())
		}
	}
	return r
}

// ---------------------------------------------------------------------------
// statements

func (c *FnCtx) execBlock(st *State, stmts []ast.Stmt) *State {
	for _, s := range stmts {
		if st == nil {
			return nil
		}
		st = c.exec(st, s)
	}
	return st
}

func (c *FnCtx) exec(st *State, s ast.Stmt) *State {
	if st == nil {
		return nil
	}
	switch x := s.(type) {
	case *ast.BlockStmt:
		return c.execBlock(st, x.List)
	case *ast.ExprStmt:
		c.evalExpr(st, x.X)
		if call, ok := x.X.(*ast.CallExpr); ok {
			if id, ok := call.Fun.(*ast.Ident); ok && id.Name == "panic" {
				if _, isB := c.info.ObjectOf(id).(*types.Builtin); isB {
					return nil
				}
			}
		}
		return st
	case *ast.EmptyStmt:
		return st
	case *ast.DeclStmt:
		gd, ok := x.Decl.(*ast.GenDecl)
		if !ok || gd.Tok != token.VAR {
			return st
		}
		for _, sp := range gd.Specs {
			vs := sp.(*ast.ValueSpec)
			if len(vs.Values) == 1 && len(vs.Names) > 1 {
				tv := c.evalExpr(st, vs.Values[0])
				for i, n := range vs.Names {
					if o := c.info.Defs[n]; o != nil && i < len(tv.F) {
						st.env[o] = tv.F[i]
					}
				}
				continue
			}
			for i, n := range vs.Names {
				o := c.info.Defs[n]
				if o == nil {
					continue
				}
				var nv Val
				if i < len(vs.Values) {
					v := c.evalExpr(st, vs.Values[i])
					nv = c.convertTo(st, v, c.typeOf(vs.Values[i]), o.Type())
				} else {
					nv = c.w.zero(o.Type())
				}
				if c.boxed[o] {
					addr := c.allocRef(st)
					st.env[o] = Val{K: KPtr, S: addr, T: types.NewPointer(o.Type()), Elem: o.Type()}
					c.writePtr(st, o.Type(), addr, nv)
				} else {
					st.env[o] = nv
				}
			}
		}
		return st
	case *ast.AssignStmt:
		return c.execAssign(st, x)
	case *ast.IncDecStmt:
		v := c.evalExpr(st, x.X)
		op := "+"
		if x.Tok == token.DEC {
			op = "-"
		}
		nv := c.arith(st, op, v, vInt("1"), c.typeOf(x.X), x.X)
		c.assignTo(st, x.X, nv, c.typeOf(x.X))
		return st
	case *ast.ReturnStmt:
		c.doReturn(st, x)
		return nil
	case *ast.IfStmt:
		if x.Init != nil {
			st = c.exec(st, x.Init)
			if st == nil {
				return nil
			}
		}
		cond := c.evalExpr(st, x.Cond)
		cnd := c.define("c", "Bool", cond.S)
		thenSt, elseSt := st.clone(), st.clone()
		thenSt.pc = c.define("pc", "Bool", sAnd(st.pc, cnd))
		elseSt.pc = c.define("pc", "Bool", sAnd(st.pc, sNot(cnd)))
		a := c.exec(thenSt, x.Body)
		var b *State = elseSt
		if x.Else != nil {
			b = c.exec(elseSt, x.Else)
		}
		return c.merge([]*State{a, b})
	case *ast.ForStmt:
		return c.execFor(st, x)
	case *ast.RangeStmt:
		return c.execRange(st, x)
	case *ast.SwitchStmt:
		return c.execSwitch(st, x)
	case *ast.TypeSwitchStmt:
		return c.execTypeSwitch(st, x)
	case *ast.BranchStmt:
		if x.Label != nil {
			c.unsupport("labelled branch", x.Pos())
			return nil
		}
		switch x.Tok {
		case token.BREAK:
			if len(c.breaks) > 0 {
				c.breaks[len(c.breaks)-1] = append(c.breaks[len(c.breaks)-1], st)
			}
			return nil
		case token.CONTINUE:
			if len(c.conts) > 0 {
				c.conts[len(c.conts)-1] = append(c.conts[len(c.conts)-1], st)
			}
			return nil
		}
		c.unsupport("branch "+x.Tok.String(), x.Pos())
		return nil
	case *ast.LabeledStmt:
		return c.exec(st, x.Stmt)
	case *ast.DeferStmt:
		c.unmodelled["defer (deferred call not executed in the model)"] = true
		return st
	case *ast.GoStmt:
		c.unsupport("go statement", x.Pos())
		return st
	}
	c.unsupport(fmt.Sprintf("statement %T", s), s.Pos())
	return st
}

func (c *FnCtx) doReturn(st *State, x *ast.ReturnStmt) {
	sig := c.curSig()
	var vals []Val
	nres := sig.Results().Len()
	switch {
	case len(x.Results) == 0 && nres > 0:
		// naked return: named results
		for i := 0; i < nres; i++ {
			v, ok := st.env[sig.Results().At(i)]
			if !ok {
				v = c.w.zero(sig.Results().At(i).Type())
			}
			vals = append(vals, v)
		}
	case len(x.Results) == 1 && nres > 1:
		tv := c.evalExpr(st, x.Results[0])
		for i := 0; i < nres && i < len(tv.F); i++ {
			vals = append(vals, tv.F[i])
		}
	default:
		for i, r := range x.Results {
			v := c.evalExpr(st, r)
			if i < nres {
				v = c.convertTo(st, v, c.typeOf(r), sig.Results().At(i).Type())
			}
			vals = append(vals, v)
		}
	}
	top := c.retStack[len(c.retStack)-1]
	*top = append(*top, retExit{st: st, vals: vals, pos: x.Pos()})
}

func (c *FnCtx) curSig() *types.Signature {
	return c.sigStack[len(c.sigStack)-1]
}

func (c *FnCtx) execAssign(st *State, x *ast.AssignStmt) *State {
	if x.Tok != token.ASSIGN && x.Tok != token.DEFINE {
		// op=
		ops := map[token.Token]token.Token{token.ADD_ASSIGN: token.ADD, token.SUB_ASSIGN: token.SUB, token.MUL_ASSIGN: token.MUL,
			token.QUO_ASSIGN: token.QUO, token.REM_ASSIGN: token.REM}
		op, ok := ops[x.Tok]
		if !ok {
			c.unsupport("assignment operator "+x.Tok.String(), x.Pos())
			return st
		}
		be := &ast.BinaryExpr{X: x.Lhs[0], Op: op, Y: x.Rhs[0], OpPos: x.TokPos}
		// types for the synthetic node
		c.info.Types[be] = types.TypeAndValue{Type: c.typeOf(x.Lhs[0])}
		v := c.evalBinary(st, be)
		delete(c.info.Types, be)
		c.assignTo(st, x.Lhs[0], v, c.typeOf(x.Lhs[0]))
		return st
	}
	if len(x.Lhs) > 1 && len(x.Rhs) == 1 {
		// tuple assignment: call, type assertion with ok, map index with ok
		var parts []Val
		var ptypes []types.Type
		switch r := x.Rhs[0].(type) {
		case *ast.TypeAssertExpr:
			v := c.evalExpr(st, r.X)
			t := c.typeOf(r.Type)
			ok := c.tagTest(v.S, t)
			var pv Val
			if isIfaceType(t) {
				pv = v
			} else {
				pv = c.payload(v.S, t)
				pv.T = t
				for _, f := range c.typeFacts(pv) {
					c.assume(st, sImp(ok, f))
				}
			}
			parts = []Val{pv, vBool(ok)}
			ptypes = []types.Type{t, types.Typ[types.Bool]}
		case *ast.IndexExpr:
			c.unmodelled["map index"] = true
			t := c.typeOf(r)
			if tup, ok := t.(*types.Tuple); ok {
				parts = []Val{c.freshVal(tup.At(0).Type(), "mapval"), vBool(c.fresh("mapok", "Bool"))}
				ptypes = []types.Type{tup.At(0).Type(), types.Typ[types.Bool]}
			}
		default:
			tv := c.evalExpr(st, x.Rhs[0])
			parts = tv.F
			if tup, ok := c.typeOf(x.Rhs[0]).(*types.Tuple); ok {
				for i := 0; i < tup.Len(); i++ {
					ptypes = append(ptypes, tup.At(i).Type())
				}
			}
		}
		for i, l := range x.Lhs {
			if i >= len(parts) {
				break
			}
			var pt types.Type
			if i < len(ptypes) {
				pt = ptypes[i]
			}
			c.assignLhs(st, l, parts[i], pt, x.Tok == token.DEFINE)
		}
		return st
	}
	// parallel assignment: evaluate all RHS first
	vals := make([]Val, len(x.Rhs))
	for i, r := range x.Rhs {
		vals[i] = c.evalExpr(st, r)
	}
	for i, l := range x.Lhs {
		c.assignLhs(st, l, vals[i], c.typeOf(x.Rhs[i]), x.Tok == token.DEFINE)
	}
	return st
}

func (c *FnCtx) assignLhs(st *State, l ast.Expr, v Val, from types.Type, define bool) {
	if id, ok := l.(*ast.Ident); ok {
		if id.Name == "_" {
			return
		}
		var o types.Object
		if define {
			o = c.info.Defs[id]
		}
		if o == nil {
			o = c.info.ObjectOf(id)
		}
		if o == nil {
			return
		}
		nv := c.convertTo(st, v, from, o.Type())
		if nv.T == nil || !isIfaceType(o.Type()) {
			nv.T = o.Type()
		}
		if nv.K == KSlice && nv.Elem == nil {
			if s, ok := o.Type().Underlying().(*types.Slice); ok {
				nv.Elem = s.Elem()
			}
		}
		if ov, isVar := o.(*types.Var); isVar && ov.Parent() == ov.Pkg().Scope() {
			c.unsupport("assignment to package-level variable "+id.Name, id.Pos())
			return
		}
		if c.boxed[o] {
			pv, ok := st.env[o]
			if !ok || pv.K != KPtr {
				addr := c.allocRef(st)
				pv = Val{K: KPtr, S: addr, T: types.NewPointer(o.Type()), Elem: o.Type()}
				st.env[o] = pv
			}
			c.writePtr(st, o.Type(), pv.S, nv)
			return
		}
		st.env[o] = nv
		return
	}
	c.assignTo(st, l, v, from)
}

// assignTo stores v into the location denoted by l.
func (c *FnCtx) assignTo(st *State, l ast.Expr, v Val, from types.Type) {
	switch x := l.(type) {
	case *ast.ParenExpr:
		c.assignTo(st, x.X, v, from)
	case *ast.Ident:
		c.assignLhs(st, l, v, from, false)
	case *ast.IndexExpr:
		bt := c.typeOf(x.X)
		et := c.typeOf(x)
		nv := c.convertTo(st, v, from, et)
		switch bt.Underlying().(type) {
		case *types.Slice:
			base := c.evalExpr(st, x.X)
			idx := c.evalExpr(st, x.Index)
			c.oblige(st, "index", sAnd(sx("<=", "0", idx.S), sx("<", idx.S, base.ln())), "index in range: "+nodeStr(x), x.Pos())
			c.writeElem(st, base.Elem, base.ref(), c.define("idx", "Int", sx("+", base.off(), idx.S)), nv)
		case *types.Array:
			base := c.evalExpr(st, x.X)
			idx := c.evalExpr(st, x.Index)
			c.oblige(st, "index", sAnd(sx("<=", "0", idx.S), sx("<", idx.S, sInt(int64(len(base.F))))), "index in range: "+nodeStr(x), x.Pos())
			nb := base
			nb.F = make([]Val, len(base.F))
			for i := range base.F {
				fo, fn := base.F[i].flat(), nv.flat()
				ts := make([]string, len(fo))
				for j := range fo {
					ts[j] = sIte(sx("=", idx.S, sInt(int64(i))), fn[j].S, fo[j].S)
				}
				nb.F[i], _ = unflat(base.F[i], ts)
			}
			c.assignTo(st, x.X, nb, bt)
		case *types.Map:
			c.evalExpr(st, x.Index)
			c.unmodelled["map store"] = true
		default:
			c.unsupport("indexed assignment", x.Pos())
		}
	case *ast.SelectorExpr:
		sel, ok := c.info.Selections[x]
		if !ok || sel.Kind() != types.FieldVal {
			c.unsupport("assignment to selector", x.Pos())
			return
		}
		nv := c.convertTo(st, v, from, sel.Type())
		recvT := sel.Recv()
		if p, ok := recvT.Underlying().(*types.Pointer); ok && len(sel.Index()) == 1 {
			base := c.evalExpr(st, x.X)
			c.oblige(st, "nil", sNot(sx("=", base.S, "0")), "nil dereference "+nodeStr(x), x.Pos())
			d := c.readPtr(st, p.Elem(), base.S)
			d.F = append([]Val(nil), d.F...)
			d.F[sel.Index()[0]] = nv
			c.writePtr(st, p.Elem(), base.S, d)
			return
		}
		if len(sel.Index()) == 1 {
			base := c.evalExpr(st, x.X)
			if base.K == KStruct {
				nb := base
				nb.F = append([]Val(nil), base.F...)
				nb.F[sel.Index()[0]] = nv
				c.assignTo(st, x.X, nb, recvT)
				return
			}
		}
		c.unsupport("nested field assignment "+nodeStr(x), x.Pos())
	case *ast.StarExpr:
		p := c.evalExpr(st, x.X)
		c.oblige(st, "nil", sNot(sx("=", p.S, "0")), "nil dereference "+nodeStr(x), x.Pos())
		c.writePtr(st, p.Elem, p.S, c.convertTo(st, v, from, p.Elem))
	default:
		c.unsupport(fmt.Sprintf("assignment target %T", l), l.Pos())
	}
}

// ---------------------------------------------------------------------------
// switch

func (c *FnCtx) execSwitch(st *State, x *ast.SwitchStmt) *State {
	if x.Init != nil {
		st = c.exec(st, x.Init)
		if st == nil {
			return nil
		}
	}
	var tag *Val
	var tagT types.Type
	if x.Tag != nil {
		v := c.evalExpr(st, x.Tag)
		tag = &v
		tagT = c.typeOf(x.Tag)
	}
	c.breaks = append(c.breaks, nil)
	var outs []*State
	notPrev := "true"
	var deflt *ast.CaseClause
	for _, cl := range x.Body.List {
		cc := cl.(*ast.CaseClause)
		if cc.List == nil {
			deflt = cc
			continue
		}
		var alts []string
		for _, e := range cc.List {
			guard := st.clone()
			guard.pc = c.define("pc", "Bool", sAnd(st.pc, notPrev))
			ev := c.evalExpr(guard, e)
			if tag != nil {
				a, b := *tag, ev
				if a.K == KIfc && b.K != KIfc {
					b = c.box(b, c.typeOf(e))
				}
				_ = tagT
				alts = append(alts, c.valEq(a, b))
			} else {
				alts = append(alts, ev.S)
			}
		}
		cond := c.define("case", "Bool", sOr(alts...))
		br := st.clone()
		br.pc = c.define("pc", "Bool", sAnd(st.pc, notPrev, cond))
		outs = append(outs, c.execBlock(br, cc.Body))
		notPrev = c.define("np", "Bool", sAnd(notPrev, sNot(cond)))
	}
	dst := st.clone()
	dst.pc = c.define("pc", "Bool", sAnd(st.pc, notPrev))
	if deflt != nil {
		outs = append(outs, c.execBlock(dst, deflt.Body))
	} else {
		outs = append(outs, dst)
	}
	brks := c.breaks[len(c.breaks)-1]
	c.breaks = c.breaks[:len(c.breaks)-1]
	outs = append(outs, brks...)
	return c.merge(outs)
}

func (c *FnCtx) execTypeSwitch(st *State, x *ast.TypeSwitchStmt) *State {
	if x.Init != nil {
		st = c.exec(st, x.Init)
		if st == nil {
			return nil
		}
	}
	var subject ast.Expr
	switch a := x.Assign.(type) {
	case *ast.AssignStmt:
		subject = a.Rhs[0].(*ast.TypeAssertExpr).X
	case *ast.ExprStmt:
		subject = a.X.(*ast.TypeAssertExpr).X
	}
	v := c.evalExpr(st, subject)
	c.breaks = append(c.breaks, nil)
	var outs []*State
	notPrev := "true"
	var deflt *ast.CaseClause
	for _, cl := range x.Body.List {
		cc := cl.(*ast.CaseClause)
		if cc.List == nil {
			deflt = cc
			continue
		}
		var alts []string
		var single types.Type
		for _, e := range cc.List {
			if id, ok := e.(*ast.Ident); ok && id.Name == "nil" {
				alts = append(alts, sx("=", sx("tag", v.S), "0"))
				continue
			}
			t := c.typeOf(e)
			alts = append(alts, c.tagTest(v.S, t))
			single = t
		}
		cond := c.define("tcase", "Bool", sOr(alts...))
		br := st.clone()
		br.pc = c.define("pc", "Bool", sAnd(st.pc, notPrev, cond))
		if o := c.info.Implicits[cc]; o != nil {
			if len(cc.List) == 1 && single != nil && !isIfaceType(single) {
				pv := c.payload(v.S, single)
				pv.T = single
				for _, f := range c.typeFacts(pv) {
					c.assume(br, f)
				}
				br.env[o] = pv
			} else {
				br.env[o] = v
			}
		}
		outs = append(outs, c.execBlock(br, cc.Body))
		notPrev = c.define("np", "Bool", sAnd(notPrev, sNot(cond)))
	}
	dst := st.clone()
	dst.pc = c.define("pc", "Bool", sAnd(st.pc, notPrev))
	if deflt != nil {
		if o := c.info.Implicits[deflt]; o != nil {
			dst.env[o] = v
		}
		outs = append(outs, c.execBlock(dst, deflt.Body))
	} else {
		outs = append(outs, dst)
	}
	brks := c.breaks[len(c.breaks)-1]
	c.breaks = c.breaks[:len(c.breaks)-1]
	outs = append(outs, brks...)
	return c.merge(outs)
}

// ---------------------------------------------------------------------------
// loops

// assignedIn collects variables assigned and heap element types written inside nodes.
type modSet struct {
	vars     map[types.Object]bool
	elems    map[string]types.Type // element types written through slices
	ptrs     map[string]types.Type
	allHeaps bool
	calls    bool
	rawKeys  map[string]bool // heap keys an impure callee may write (reachable from its signature)
}

func (c *FnCtx) modified(nodes ...ast.Node) *modSet {
	ms := &modSet{vars: map[types.Object]bool{}, elems: map[string]types.Type{}, ptrs: map[string]types.Type{}}
	var markLhs func(e ast.Expr)
	markLhs = func(e ast.Expr) {
		switch l := e.(type) {
		case *ast.Ident:
			if o := c.info.ObjectOf(l); o != nil {
				ms.vars[o] = true
			}
		case *ast.ParenExpr:
			markLhs(l.X)
		case *ast.IndexExpr:
			bt := c.typeOf(l.X)
			if bt == nil {
				return
			}
			switch u := bt.Underlying().(type) {
			case *types.Slice:
				ms.elems[typeKey(u.Elem())] = u.Elem()
			case *types.Array:
				markLhs(l.X)
			}
		case *ast.SelectorExpr:
			if sel, ok := c.info.Selections[l]; ok {
				if p, ok := sel.Recv().Underlying().(*types.Pointer); ok {
					ms.ptrs[typeKey(p.Elem())] = p.Elem()
					return
				}
			}
			markLhs(l.X)
		case *ast.StarExpr:
			if t := c.typeOf(l.X); t != nil {
				if p, ok := t.Underlying().(*types.Pointer); ok {
					ms.ptrs[typeKey(p.Elem())] = p.Elem()
				}
			}
		}
	}
	for _, n := range nodes {
		if n == nil {
			continue
		}
		ast.Inspect(n, func(m ast.Node) bool {
			switch s := m.(type) {
			case *ast.AssignStmt:
				for _, l := range s.Lhs {
					markLhs(l)
				}
			case *ast.IncDecStmt:
				markLhs(s.X)
			case *ast.RangeStmt:
				if s.Key != nil {
					markLhs(s.Key)
				}
				if s.Value != nil {
					markLhs(s.Value)
				}
			case *ast.CallExpr:
				if id, ok := s.Fun.(*ast.Ident); ok {
					if _, isB := c.info.ObjectOf(id).(*types.Builtin); isB {
						switch id.Name {
						case "append", "copy":
							if len(s.Args) > 0 {
								if t := c.typeOf(s.Args[0]); t != nil {
									if u, ok := t.Underlying().(*types.Slice); ok {
										ms.elems[typeKey(u.Elem())] = u.Elem()
									}
								}
							}
							return true
						case "len", "cap", "make", "new", "panic", "min", "max":
							return true
						}
					}
				}
				if tv, ok := c.info.Types[s.Fun]; ok && tv.IsType() {
					// conversions allocate at most
					return true
				}
				if c.callIsPure(s, ms, 0) {
					return true
				}
				ms.calls = true
			case *ast.FuncLit:
				return true
			}
			return true
		})
	}
	return ms
}

func (c *FnCtx) havocForLoop(st *State, ms *modSet) {
	// variables
	objs := make([]types.Object, 0, len(ms.vars))
	for o := range ms.vars {
		if _, ok := st.env[o]; ok {
			objs = append(objs, o)
		}
	}
	sort.Slice(objs, func(i, j int) bool { return objs[i].Pos() < objs[j].Pos() })
	for _, o := range objs {
		old := st.env[o]
		nv := c.freshVal(o.Type(), o.Name())
		nv.T = old.T
		if old.K == KSlice {
			nv.Elem = old.Elem
		}
		for _, f := range c.typeFacts(nv) {
			c.assume(st, f)
		}
		st.env[o] = nv
	}
	// heaps: every heap that already has a non-initial version or is written in the loop;
	// calls may allocate, so all known heaps get a new version constrained by the frame of
	// callee contracts (handled at the call); here we havoc written element heaps entirely.
	keys := map[string]bool{}
	for _, et := range ms.elems {
		out := map[string]string{}
		ek := c.elemKey(et)
		c.w.proto(et, "", func(path, sort string) string {
			out[ek+path] = sort
			heapSorts[ek+path] = sort
			return ""
		})
		for k := range out {
			keys[k] = true
		}
	}
	for _, pt := range ms.ptrs {
		pk := "P_" + c.elemKey(pt)
		c.w.proto(pt, "", func(path, sort string) string {
			keys[pk+path] = true
			heapSorts[pk+path] = sort
			return ""
		})
	}
	for k := range ms.rawKeys {
		keys[k] = true
	}
	if ms.calls {
		// calls inside the loop may have produced new heap versions for any heap already
		// present in the state: havoc those too
		for k := range st.heaps {
			if !strings.HasPrefix(k, "G_") {
				keys[k] = true
			}
		}
		for k := range c.callHeapKeys {
			keys[k] = true
		}
	}
	ks := make([]string, 0, len(keys))
	for k := range keys {
		ks = append(ks, k)
	}
	sort.Strings(ks)
	oldAlloc := st.alloc
	for _, k := range ks {
		c.havocHeap(st, k)
	}
	na := c.fresh("alloc", "Int")
	c.assume(st, sx(">=", na, oldAlloc))
	st.alloc = na
	// every slice header stored in memory refers to memory allocated before now
	for _, k := range ks {
		if strings.HasSuffix(k, "_ref") && !strings.HasPrefix(k, "P_") && !strings.HasPrefix(k, "G_") && c.heapSort(k) == "Int" {
			sym := st.heaps[k]
			c.assume(st, fmt.Sprintf("(forall ((r Int) (i Int)) (! (< (%s r i) %s) :pattern ((%s r i))))", sym, na, sym))
		}
	}
	// every reference held in a variable was allocated before now
	for _, o := range objs {
		c.refsBelow(st, st.env[o], na)
	}
}

func (c *FnCtx) refsBelow(st *State, v Val, bound string) {
	switch v.K {
	case KSlice:
		c.assume(st, sx("<", v.ref(), bound))
	case KPtr:
		c.assume(st, sx("<", v.S, bound))
	case KStruct, KArray, KTuple:
		for _, f := range v.F {
			c.refsBelow(st, f, bound)
		}
	}
}

func (c *FnCtx) loopSpec() (*LoopSpec, int) {
	c.loopOrd++
	ord := c.loopOrd
	if c.inlineDepth > 0 || c.spec == nil {
		return nil, ord
	}
	if m, ok := c.loopRemap[ord]; ok {
		// loops were added or removed since the contracts were written (locals.go)
		ord = m
	}
	return c.spec.Loops[ord], ord
}

func (c *FnCtx) specScopeAt(st *State) *SpecScope {
	sc := &SpecScope{c: c, cur: st, old: c.entry, vars: map[string]Val{}, oldVars: map[string]Val{}}
	for k, v := range c.paramVals {
		sc.oldVars[k] = v
	}
	return sc
}

// checkLoopExit discharges the `exit` clauses of a loop in the state after it, whichever way it
// was left (guard false, or break).
func (c *FnCtx) checkLoopExit(st *State, ls *LoopSpec, ord int) {
	if ls == nil || st == nil {
		return
	}
	for i, cl := range ls.Exits {
		sc := c.specScopeAt(st)
		c.obligeNamed(st, "inv", fmt.Sprintf("loop%d/exit#%d", ord, i+1), sc.boolOf(cl.Expr), "after the loop: "+cl.Src, token.NoPos)
	}
}

func (c *FnCtx) checkInvariants(st *State, ls *LoopSpec, ord int, phase string) {
	if ls == nil {
		return
	}
	for i, inv := range ls.Invariants {
		sc := c.specScopeAt(st)
		if len(c.iterStates) > 0 {
			sc.vars["__iter"] = Val{K: KUnit}
		}
		t := sc.boolOf(inv.Expr)
		c.obligeNamed(st, "inv", fmt.Sprintf("loop%d/inv#%d/%s", ord, i+1, phase), t, "invariant "+inv.Src, token.NoPos)
	}
	if c.autoFrame {
		t := c.frameFormula(c.entry, st, c.entry.alloc, c.frameExcept)
		c.obligeNamed(st, "frame", fmt.Sprintf("loop%d/frame/%s", ord, phase), t, "memory allocated before the call is unchanged (assigns clause)", token.NoPos)
	}
}

// useLemma assumes an instance of a separately proved lemma: requires(args) ==> ensures(args).
func (c *FnCtx) useLemma(st *State, cl *Clause) {
	call, ok := cl.Expr.(*ast.CallExpr)
	var qvars []string
	var qnames []string
	for ok {
		// forall k: lemma(...)  (rewritten to forallint(k, lemma(...)))
		id, isId := call.Fun.(*ast.Ident)
		if !isId || id.Name != "forallint" || len(call.Args) != 2 {
			break
		}
		qn := call.Args[0].(*ast.Ident).Name
		c.nfresh++
		qnames = append(qnames, qn)
		qvars = append(qvars, fmt.Sprintf("%s?%d", qn, c.nfresh))
		call, ok = call.Args[1].(*ast.CallExpr)
	}
	if !ok {
		c.unsupported = append(c.unsupported, "use clause is not a lemma application: "+cl.Src)
		return
	}
	name := ""
	if id, ok := call.Fun.(*ast.Ident); ok {
		name = id.Name
	}
	var lem *FuncSpec
	var key string
	for k, fs := range c.eng.contracts.Funcs {
		if fs.IsLemma && fs.Key == "lemma."+name {
			lem, key = fs, k
		}
	}
	if lem == nil {
		c.unsupported = append(c.unsupported, "unknown lemma "+name)
		return
	}
	c.deps[key] = true
	sc := c.specScopeAt(st)
	sc.bound = map[string]bool{}
	for i, qn := range qnames {
		sc.vars[qn] = vInt(qvars[i])
		sc.bound[qn] = true
	}
	c.openBound = append(c.openBound, qvars...)
	defer func() { c.openBound = c.openBound[:len(c.openBound)-len(qvars)] }()
	inst := &SpecScope{c: c, cur: st, old: c.entry, vars: map[string]Val{}, bound: sc.bound}
	for i, pn := range lem.Params {
		if i < len(call.Args) {
			inst.vars[pn] = sc.eval(call.Args[i])
		}
	}
	pre := "true"
	for _, r := range lem.Requires {
		pre = sAnd(pre, inst.boolOf(r.Expr))
	}
	post := "true"
	for _, e := range lem.Ensures {
		post = sAnd(post, inst.boolOf(e.Expr))
	}
	f := sImp(pre, post)
	if len(qvars) > 0 {
		var bs []string
		for _, q := range qvars {
			bs = append(bs, "("+q+" Int)")
		}
		f = fmt.Sprintf("(forall (%s) %s)", strings.Join(bs, " "), f)
	}
	c.assume(st, f)
}

func (c *FnCtx) assumeInvariants(st *State, ls *LoopSpec) {
	if ls != nil {
		for _, inv := range ls.Invariants {
			sc := c.specScopeAt(st)
			c.assume(st, sc.boolOf(inv.Expr))
		}
		for _, u := range ls.Uses {
			c.useLemma(st, u)
		}
	}
	if c.autoFrame {
		c.assume(st, c.frameFormula(c.entry, st, c.entry.alloc, c.frameExcept))
	}
}

// ghostAssign defines a new version of a ghost function: G'(x) := e.
func (c *FnCtx) ghostAssign(st *State, cl *Clause, iter *State) {
	name := cl.Label
	key := "G_" + name
	heapSorts[key] = "Int"
	param := "gx"
	if len(cl.Props) > 0 && cl.Props[0] != "" {
		param = cl.Props[0]
	}
	c.nfresh++
	bv := fmt.Sprintf("%s?%d", param, c.nfresh)
	sc := c.specScopeAt(st)
	sc.iter = iter
	sc.vars[param] = vInt(bv)
	sc.bound = map[string]bool{param: true}
	c.openBound = append(c.openBound, bv)
	body := sc.intOf(cl.Expr)
	c.openBound = c.openBound[:len(c.openBound)-1]
	nw := c.newHeapVersion(key)
	c.declared[nw] = true
	c.isMacro[nw] = true
	c.emit(fmt.Sprintf("(define-fun %s ((%s Int)) Int %s)", nw, bv, body))
	st.heaps[key] = nw
}

func (c *FnCtx) ghostLoopHavoc(st *State, ls *LoopSpec) {
	if ls == nil {
		return
	}
	seen := map[string]bool{}
	for _, g := range ls.GhostUpd {
		if !seen[g.Label] {
			seen[g.Label] = true
			heapSorts["G_"+g.Label] = "Int"
			c.havocHeap(st, "G_"+g.Label)
		}
	}
}

func (c *FnCtx) execFor(st *State, x *ast.ForStmt) *State {
	if x.Init != nil {
		st = c.exec(st, x.Init)
		if st == nil {
			return nil
		}
	}
	ls, ord := c.loopSpec()
	if ls != nil {
		for _, gi := range ls.GhostInit {
			c.ghostAssign(st, gi, nil)
		}
	}
	c.checkInvariants(st, ls, ord, "entry")
	ms := c.modified(x.Body, x.Post, x.Cond)
	head := st.clone()
	c.havocForLoop(head, ms)
	c.ghostLoopHavoc(head, ls)
	c.assumeInvariants(head, ls)
	cond := "true"
	if x.Cond != nil {
		cond = c.define("guard", "Bool", c.evalExpr(head, x.Cond).S)
	}
	body := head.clone()
	body.pc = c.define("pc", "Bool", sAnd(head.pc, cond))
	exit := head.clone()
	exit.pc = c.define("pc", "Bool", sAnd(head.pc, sNot(cond)))
	var dec0 string
	if ls != nil && ls.Decreases != nil {
		dec0 = c.specScopeAt(body).intOf(ls.Decreases.Expr)
		dec0 = c.define("dec", "Int", dec0)
	}
	c.breaks = append(c.breaks, nil)
	c.conts = append(c.conts, nil)
	c.iterStates = append(c.iterStates, body.clone())
	end := c.exec(body, x.Body)
	conts := c.conts[len(c.conts)-1]
	c.conts = c.conts[:len(c.conts)-1]
	end = c.merge(append([]*State{end}, conts...))
	if end != nil && x.Post != nil {
		end = c.exec(end, x.Post)
	}
	if end != nil {
		if ls != nil {
			for _, gu := range ls.GhostUpd {
				c.ghostAssign(end, gu, c.iterStates[len(c.iterStates)-1])
			}
		}
		c.checkInvariants(end, ls, ord, "preserve")
		if dec0 != "" {
			d1 := c.specScopeAt(end).intOf(ls.Decreases.Expr)
			c.obligeNamed(end, "decreases", fmt.Sprintf("loop%d/decreases", ord), sAnd(sx("<", d1, dec0), sx("<=", "0", dec0)), "decreases "+ls.Decreases.Src, x.Pos())
		}
	}
	c.iterStates = c.iterStates[:len(c.iterStates)-1]
	brks := c.breaks[len(c.breaks)-1]
	c.breaks = c.breaks[:len(c.breaks)-1]
	after := c.merge(append([]*State{exit}, brks...))
	c.checkLoopExit(after, ls, ord)
	return after
}

func (c *FnCtx) execRange(st *State, x *ast.RangeStmt) *State {
	coll := c.evalExpr(st, x.X)
	ct := c.typeOf(x.X)
	var n string
	isMap := false
	switch coll.K {
	case KSlice:
		n = coll.ln()
	case KArray:
		n = sInt(int64(len(coll.F)))
	case KStr:
		c.unmodelled["range over string (bytes, not runes)"] = true
		n = sx("slen", coll.S)
	case KInt:
		n = coll.S
	case KMap:
		isMap = true
		n = c.fresh("maplen", "Int")
		c.fact(sx(">=", n, "0"))
		c.unmodelled["range over map (arbitrary order, arbitrary entries)"] = true
	default:
		c.unsupport("range over "+ct.String(), x.Pos())
		return st
	}
	ls, ord := c.loopSpec()
	if ls != nil && ls.Unroll > 0 && (coll.K == KSlice || coll.K == KArray) {
		return c.execRangeUnrolled(st, x, coll, n, ls, ord)
	}
	// index variable
	var keyObj types.Object
	if id, ok := x.Key.(*ast.Ident); ok && id.Name != "_" && !isMap {
		if x.Tok == token.DEFINE {
			keyObj = c.info.Defs[id]
		} else {
			keyObj = c.info.ObjectOf(id)
		}
	}
	idxName := fmt.Sprintf("idx%d", ord)
	if keyObj == nil {
		keyObj = types.NewVar(x.Pos(), c.pkg.Types, idxName, types.Typ[types.Int])
		// the loop had a named key when the contracts were written (`for i := range xs` rewritten
		// as `for _, x := range xs`): clauses naming it mean the iteration index
		if k := c.baseRangeKey[ord]; k != "" && !c.curLocals[k] && c.inlineDepth == 0 {
			if c.renames == nil {
				c.renames = map[string]string{}
			}
			c.renames[k] = idxName
		}
	} else if c.inlineDepth == 0 {
		if c.rangeKeys == nil {
			c.rangeKeys = map[int]string{}
		}
		c.rangeKeys[ord] = keyObj.Name()
		// and the other way round: clauses written for a key-less loop use idxN
		if !c.curLocals[idxName] {
			if c.renames == nil {
				c.renames = map[string]string{}
			}
			if _, ok := c.renames[idxName]; !ok {
				c.renames[idxName] = keyObj.Name()
			}
		}
	}
	st.env[keyObj] = Val{K: KInt, S: "0", T: types.Typ[types.Int]}
	if ls != nil {
		for _, gi := range ls.GhostInit {
			c.ghostAssign(st, gi, nil)
		}
	}
	c.checkInvariants(st, ls, ord, "entry")
	ms := c.modified(x.Body)
	if ms.vars[keyObj] && x.Key != nil {
		// body assigns the key variable: with Go >= 1.22 semantics this does not affect iteration
		c.unmodelled["range key variable assigned in loop body"] = true
	}
	ms.vars[keyObj] = true
	head := st.clone()
	c.havocForLoop(head, ms)
	c.ghostLoopHavoc(head, ls)
	idx := head.env[keyObj].S
	c.assume(head, sAnd(sx("<=", "0", idx), sx("<=", idx, n)))
	c.assumeInvariants(head, ls)
	cond := c.define("guard", "Bool", sx("<", idx, n))
	body := head.clone()
	body.pc = c.define("pc", "Bool", sAnd(head.pc, cond))
	exit := head.clone()
	exit.pc = c.define("pc", "Bool", sAnd(head.pc, sNot(cond)))
	// value variable
	if x.Value != nil {
		if id, ok := x.Value.(*ast.Ident); ok && id.Name != "_" {
			var vo types.Object
			if x.Tok == token.DEFINE {
				vo = c.info.Defs[id]
			} else {
				vo = c.info.ObjectOf(id)
			}
			var ev Val
			switch coll.K {
			case KSlice:
				ev = c.readElem(body, coll.Elem, coll.ref(), sx("+", coll.off(), idx))
			case KArray:
				ev = c.arraySelect(coll, idx)
			case KStr:
				ev = Val{K: KInt, S: sx("sat", coll.S, idx), T: types.Typ[types.Int32]}
			case KMap:
				ev = c.freshVal(vo.Type(), "mapval")
				for _, f := range c.typeFacts(ev) {
					c.assume(body, f)
				}
			}
			if vo != nil {
				if ev.T == nil {
					ev.T = vo.Type()
				}
				body.env[vo] = ev
			}
		}
	}
	if isMap {
		if id, ok := x.Key.(*ast.Ident); ok && id.Name != "_" {
			var ko types.Object
			if x.Tok == token.DEFINE {
				ko = c.info.Defs[id]
			} else {
				ko = c.info.ObjectOf(id)
			}
			if ko != nil {
				body.env[ko] = c.freshVal(ko.Type(), "mapkey")
			}
		}
	}
	var dec0 string
	if ls != nil && ls.Decreases != nil {
		dec0 = c.define("dec", "Int", c.specScopeAt(body).intOf(ls.Decreases.Expr))
	}
	c.breaks = append(c.breaks, nil)
	c.conts = append(c.conts, nil)
	c.iterStates = append(c.iterStates, body.clone())
	end := c.exec(body, x.Body)
	conts := c.conts[len(c.conts)-1]
	c.conts = c.conts[:len(c.conts)-1]
	end = c.merge(append([]*State{end}, conts...))
	if end != nil {
		end.env[keyObj] = Val{K: KInt, S: c.define("next", "Int", sx("+", idx, "1")), T: types.Typ[types.Int]}
		if ls != nil {
			for _, gu := range ls.GhostUpd {
				c.ghostAssign(end, gu, c.iterStates[len(c.iterStates)-1])
			}
		}
		c.checkInvariants(end, ls, ord, "preserve")
		if dec0 != "" {
			d1 := c.specScopeAt(end).intOf(ls.Decreases.Expr)
			c.obligeNamed(end, "decreases", fmt.Sprintf("loop%d/decreases", ord), sAnd(sx("<", d1, dec0), sx("<=", "0", dec0)), "decreases "+ls.Decreases.Src, x.Pos())
		}
	}
	c.iterStates = c.iterStates[:len(c.iterStates)-1]
	brks := c.breaks[len(c.breaks)-1]
	c.breaks = c.breaks[:len(c.breaks)-1]
	after := c.merge(append([]*State{exit}, brks...))
	c.checkLoopExit(after, ls, ord)
	return after
}

// execRangeUnrolled executes a range loop by unrolling it K times; the unwinding assertion
// (no further iteration is possible) makes the result complete under the precondition.
func (c *FnCtx) execRangeUnrolled(st *State, x *ast.RangeStmt, coll Val, n string, ls *LoopSpec, ord int) *State {
	var exits []*State
	cur := st
	c.breaks = append(c.breaks, nil)
	for k := 0; k < ls.Unroll && cur != nil; k++ {
		idx := sInt(int64(k))
		guard := c.define("guard", "Bool", sx("<", idx, n))
		exit := cur.clone()
		exit.pc = c.define("pc", "Bool", sAnd(cur.pc, sNot(guard)))
		exits = append(exits, exit)
		body := cur.clone()
		body.pc = c.define("pc", "Bool", sAnd(cur.pc, guard))
		if id, ok := x.Key.(*ast.Ident); ok && id.Name != "_" {
			var ko types.Object
			if x.Tok == token.DEFINE {
				ko = c.info.Defs[id]
			} else {
				ko = c.info.ObjectOf(id)
			}
			if ko != nil {
				body.env[ko] = Val{K: KInt, S: idx, T: types.Typ[types.Int]}
			}
		}
		if x.Value != nil {
			if id, ok := x.Value.(*ast.Ident); ok && id.Name != "_" {
				var vo types.Object
				if x.Tok == token.DEFINE {
					vo = c.info.Defs[id]
				} else {
					vo = c.info.ObjectOf(id)
				}
				var ev Val
				if coll.K == KSlice {
					ev = c.readElem(body, coll.Elem, coll.ref(), sx("+", coll.off(), idx))
				} else {
					ev = c.arraySelect(coll, idx)
				}
				if vo != nil {
					if ev.T == nil {
						ev.T = vo.Type()
					}
					body.env[vo] = ev
				}
			}
		}
		c.conts = append(c.conts, nil)
		end := c.exec(body, x.Body)
		conts := c.conts[len(c.conts)-1]
		c.conts = c.conts[:len(c.conts)-1]
		cur = c.merge(append([]*State{end}, conts...))
	}
	if cur != nil {
		c.obligeNamed(cur, "unwind", fmt.Sprintf("loop%d/unwind", ord), sNot(sx("<", sInt(int64(ls.Unroll)), n)), fmt.Sprintf("loop unrolled %d times covers every iteration", ls.Unroll), x.Pos())
		done := cur.clone()
		exits = append(exits, done)
	}
	brks := c.breaks[len(c.breaks)-1]
	c.breaks = c.breaks[:len(c.breaks)-1]
	return c.merge(append(exits, brks...))
}

var pureExterns = map[string]bool{"bytes.IndexByte": true, "bytes.Equal": true, "fmt.Sprintf": true, "sort.Search": true,
	"bytes.HasPrefix": true, "strings.IndexByte": true, "bytes.ToLower": true, "strings.ToLower": true, "fmt.Errorf": true, "errors.New": true}

// callIsPure reports whether a call cannot write to existing memory: its callee has a contract
// with "assigns nothing", is a pure external function, or is an inlinable function whose body
// only calls such functions (element heaps it writes directly are added to ms).
func (c *FnCtx) callIsPure(call *ast.CallExpr, ms *modSet, depth int) bool {
	var fn *types.Func
	switch f := unparen(call.Fun).(type) {
	case *ast.Ident:
		fn, _ = c.info.ObjectOf(f).(*types.Func)
	case *ast.SelectorExpr:
		if sel, ok := c.info.Selections[f]; ok {
			if sel.Kind() == types.MethodVal {
				fn, _ = sel.Obj().(*types.Func)
			}
		} else {
			fn, _ = c.info.ObjectOf(f.Sel).(*types.Func)
		}
	}
	if fn == nil {
		// call of a function value: modelled as a pure function
		if _, ok := c.typeOf(call.Fun).Underlying().(*types.Signature); ok {
			return true
		}
		return false
	}
	pure := c.callIsPure1(call, fn, ms, depth)
	if !pure {
		// the call may write any heap reachable from its signature: the loop head must havoc them
		// even when no call has touched them before the loop
		if sig, ok := fn.Type().(*types.Signature); ok {
			if ms.rawKeys == nil {
				ms.rawKeys = map[string]bool{}
			}
			seen := map[string]bool{}
			keys := map[string]string{}
			c.heapKeysOf(sig.Params(), seen, keys)
			c.heapKeysOf(sig.Results(), seen, keys)
			if sig.Recv() != nil {
				c.heapKeysOf(sig.Recv().Type(), seen, keys)
			}
			for k := range keys {
				ms.rawKeys[k] = true
			}
		}
	}
	return pure
}

func (c *FnCtx) callIsPure1(call *ast.CallExpr, fn *types.Func, ms *modSet, depth int) bool {
	key := c.funcKey(fn)
	if fs, ok := c.eng.contracts.Funcs[key]; ok {
		if fs.Assigns == "nothing" {
			return true
		}
		if fs.Assigns != "" {
			// assigns heap(T), ...: only those element heaps
			onlyHeaps := true
			for _, item := range splitTop(fs.Assigns, ',') {
				m := heapItemRe.FindStringSubmatch(strings.TrimSpace(item))
				if m == nil {
					onlyHeaps = false
					break
				}
				tmp := &SpecScope{c: c}
				if t := tmp.lookupType(m[1]); t != nil {
					ms.elems[typeKey(t)] = t
				} else {
					onlyHeaps = false
				}
			}
			return onlyHeaps
		}
		return false
	}
	if pureExterns[fn.FullName()] {
		return true
	}
	if _, ok := externs[fn.FullName()]; ok {
		return false
	}
	if d, ok := c.eng.decls[fn]; ok && d.decl.Body != nil && depth < 3 && c.pureDepth < 3 {
		// inlined callee: scan its body with its own type information (bounded nesting: the scan
		// of a callee's body starts again at depth 0, so the nesting is counted here)
		saved := c.info
		c.info = d.pkg.TypesInfo
		c.pureDepth++
		sub := c.modified(d.decl.Body)
		c.pureDepth--
		c.info = saved
		for k, v := range sub.elems {
			ms.elems[k] = v
		}
		for k, v := range sub.ptrs {
			ms.ptrs[k] = v
		}
		for k := range sub.rawKeys {
			if ms.rawKeys == nil {
				ms.rawKeys = map[string]bool{}
			}
			ms.rawKeys[k] = true
		}
		return !sub.calls
	}
	return false
}
