package main

// Contract files: //@ blocks in contracts_verif.go files (comment-only, build tag verif).

import (
	"fmt"
	"go/ast"
	"go/parser"
	"os"
	"regexp"
	"strconv"
	"strings"
)

type Clause struct {
	Each  bool // checked separately at every return statement (smaller queries), same meaning as ensures
	Local bool // proved at exit but not assumed at call sites ("guarantee")
	Label string
	Src   string
	Expr  ast.Expr
	Props []string
	Line  int
	File  string
}

type LoopSpec struct {
	Invariants []*Clause
	Decreases  *Clause
	GhostUpd   []*Clause
	GhostInit  []*Clause
	Uses       []*Clause
	Exits      []*Clause // checked in the state after the loop (normal exit and breaks merged)
	Unroll     int       // bounded unrolling with an unwinding assertion instead of an invariant
}

type GhostDecl struct {
	Name   string
	Params []string
	In     bool // supplied by the caller (bound to the caller's ghost function of the same name)
}

type FuncSpec struct {
	Key         string // e.g. "Ranged.Expand", "Join", "slowGenBankOriginParser$1"
	Pkg         string
	Recv        string // spec name of receiver
	RecvType    string
	Params      []string // spec names, positional
	Results     []string
	Props       []string
	Requires    []*Clause
	Ensures     []*Clause
	Loops       map[int]*LoopSpec
	Assigns     string // "" (unspecified), "nothing", or expression list
	Trusted     bool   // contract assumed, body not verified
	TrustWhy    string
	PanicsIf    []*Clause
	Decreases   *Clause
	Ghosts      []string
	GhostFns    []*GhostDecl
	GhostFinal  []*Clause
	Uses        []*Clause
	Reveal      []string
	Defines     []*Clause // definitional axioms of ghost functions (assumed on both sides)
	CallPre     []*Clause // obligations at every call of a named external method inside this function: Label = method name, Props = argument names
	Iface       string    // for interface method contracts: interface name
	File        string
	Line        int
	NoInline    bool
	Pure        bool
	Allocates   bool
	IsLemma     bool
	External    bool
	LemmaParams string
}

type SpecFunc struct {
	Name    string
	Params  []string
	PTypes  []string
	Ret     string
	Body    ast.Expr // nil => uninterpreted
	BodySrc string
	Pkg     string
	Macro   bool // expanded in place (may read the heap of the calling scope)
	Opaque  bool // declared uninterpreted with a triggered definitional axiom (usable as a trigger)
}

type Axiom struct {
	Name string
	Expr ast.Expr
	Src  string
	Pkg  string
}

type Contracts struct {
	Funcs     map[string]*FuncSpec // key: pkgname.Key
	SpecFuncs map[string]*SpecFunc
	SpecOrder []string
	Axioms    []*Axiom
	Files     []string
}

var clauseKW = map[string]bool{"prop": true, "requires": true, "ensures": true, "assigns": true, "loop": true,
	"decreases": true, "ghost": true, "ghost_final": true, "use": true, "reveal": true, "guarantee": true, "define": true, "callpre": true, "ensures_each": true, "panics_if": true, "trusted": true, "noinline": true, "pure": true, "allocates": true}

var headRe = regexp.MustCompile(`^func\s*(\(\s*(\w+)\s+(\*?[\w.]+)\s*\))?\s*([\w$.@]+)\s*\((.*?)\)\s*(\(.*\)|[\w.*\[\]]+)?\s*$`)

func parseNames(list string) []string {
	// "i, n int, p []byte" -> [i n p]; "out Location" -> [out]
	list = strings.TrimSpace(list)
	if list == "" {
		return nil
	}
	src := "package p\nfunc f(" + list + ")"
	f, err := parser.ParseFile(fsetSpec, "", src, 0)
	if err != nil {
		return nil
	}
	fd := f.Decls[0].(*ast.FuncDecl)
	var names []string
	for _, fl := range fd.Type.Params.List {
		if len(fl.Names) == 0 {
			names = append(names, "_")
		}
		for _, n := range fl.Names {
			names = append(names, n.Name)
		}
	}
	return names
}

func loadContracts(files []string, pkgNames []string) (*Contracts, error) {
	cs := &Contracts{Funcs: map[string]*FuncSpec{}, SpecFuncs: map[string]*SpecFunc{}}
	for fi, file := range files {
		data, err := os.ReadFile(file)
		if err != nil {
			continue
		}
		cs.Files = append(cs.Files, file)
		pkg := pkgNames[fi]
		var cur *FuncSpec
		var lastClause *Clause
		var lastSpec *SpecFunc
		var lastAxiom *Axiom
		for ln, line := range strings.Split(string(data), "\n") {
			t := strings.TrimSpace(line)
			if !strings.HasPrefix(t, "//@") {
				continue
			}
			body := strings.TrimSpace(t[3:])
			if i := strings.Index(body, " //"); i >= 0 {
				body = strings.TrimSpace(body[:i])
			}
			if body == "" {
				continue
			}
			word := body
			if i := strings.IndexAny(body, " \t:"); i >= 0 {
				word = body[:i]
			}
			rest := strings.TrimSpace(body[len(word):])
			switch {
			case word == "func" || word == "external":
				external := word == "external"
				if external {
					body = strings.TrimSpace(strings.TrimPrefix(body, "external"))
				}
				m := headRe.FindStringSubmatch(body)
				if m == nil {
					return nil, fmt.Errorf("%s:%d: cannot parse contract header %q", file, ln+1, body)
				}
				cur = &FuncSpec{Pkg: pkg, Loops: map[int]*LoopSpec{}, File: file, Line: ln + 1}
				cur.Recv, cur.RecvType = m[2], strings.TrimPrefix(m[3], "*")
				cur.Key = m[4]
				if cur.RecvType != "" {
					cur.Key = cur.RecvType + "." + m[4]
				}
				cur.Params = parseNames(m[5])
				res := strings.TrimSpace(m[6])
				if strings.HasPrefix(res, "(") {
					cur.Results = parseNames(res[1 : len(res)-1])
				}
				if external {
					// contract of a function outside the repository: assumed, keyed by its own package
					cur.Trusted = true
					cur.External = true
					cur.TrustWhy = "external function (standard library or dependency)"
					cs.Funcs[cur.Key] = cur
				} else {
					cs.Funcs[pkg+"."+cur.Key] = cur
				}
				lastClause, lastSpec, lastAxiom = nil, nil, nil
			case word == "lemma":
				m := regexp.MustCompile(`^(\w+)\s*\((.*)\)\s*$`).FindStringSubmatch(rest)
				if m == nil {
					return nil, fmt.Errorf("%s:%d: cannot parse lemma header %q", file, ln+1, body)
				}
				cur = &FuncSpec{Pkg: pkg, Loops: map[int]*LoopSpec{}, File: file, Line: ln + 1, IsLemma: true, Key: "lemma." + m[1], LemmaParams: m[2]}
				cur.Params = parseNames(m[2])
				cs.Funcs[pkg+"."+cur.Key] = cur
				lastClause, lastSpec, lastAxiom = nil, nil, nil
			case word == "spec" && strings.HasPrefix(rest, "macro"):
				sf, err := parseSpecFunc("func"+strings.TrimPrefix(rest, "macro"), pkg)
				if err != nil {
					return nil, fmt.Errorf("%s:%d: %v", file, ln+1, err)
				}
				sf.Macro = true
				cs.SpecFuncs[sf.Name] = sf
				cs.SpecOrder = append(cs.SpecOrder, sf.Name)
				cur, lastClause, lastAxiom = nil, nil, nil
				lastSpec = sf
			case word == "spec" && strings.HasPrefix(rest, "opaque"):
				sf, err := parseSpecFunc("func"+strings.TrimPrefix(rest, "opaque"), pkg)
				if err != nil {
					return nil, fmt.Errorf("%s:%d: %v", file, ln+1, err)
				}
				sf.Opaque = true
				cs.SpecFuncs[sf.Name] = sf
				cs.SpecOrder = append(cs.SpecOrder, sf.Name)
				cur, lastClause, lastAxiom = nil, nil, nil
				lastSpec = sf
			case word == "spec":
				// spec func name(params) ret = expr   |  spec func name(params) ret uninterpreted
				sf, err := parseSpecFunc(rest, pkg)
				if err != nil {
					return nil, fmt.Errorf("%s:%d: %v", file, ln+1, err)
				}
				cs.SpecFuncs[sf.Name] = sf
				cs.SpecOrder = append(cs.SpecOrder, sf.Name)
				cur, lastClause, lastAxiom = nil, nil, nil
				lastSpec = sf
			case word == "axiom":
				i := strings.Index(rest, ":")
				if i < 0 {
					return nil, fmt.Errorf("%s:%d: axiom needs a name", file, ln+1)
				}
				ax := &Axiom{Name: strings.TrimSpace(rest[:i]), Src: strings.TrimSpace(rest[i+1:]), Pkg: pkg}
				cs.Axioms = append(cs.Axioms, ax)
				cur, lastClause, lastSpec = nil, nil, nil
				lastAxiom = ax
			case cur != nil && clauseKW[word]:
				lastClause = nil
				switch word {
				case "prop":
					cur.Props = append(cur.Props, strings.Fields(rest)...)
				case "requires", "ensures", "panics_if", "decreases", "guarantee", "ensures_each":
					cl := &Clause{Src: rest, Line: ln + 1, File: file}
					if m := regexp.MustCompile(`^(\w+):\s+(.*)$`).FindStringSubmatch(rest); m != nil && (word == "ensures" || word == "guarantee" || word == "ensures_each") {
						cl.Label, cl.Src = m[1], m[2]
					}
					switch word {
					case "requires":
						cur.Requires = append(cur.Requires, cl)
					case "guarantee":
						cl.Local = true
						cur.Ensures = append(cur.Ensures, cl)
					case "ensures_each":
						cl.Each = true
						cur.Ensures = append(cur.Ensures, cl)
					case "ensures":
						cur.Ensures = append(cur.Ensures, cl)
					case "panics_if":
						cur.PanicsIf = append(cur.PanicsIf, cl)
					case "decreases":
						cur.Decreases = cl
					}
					lastClause = cl
				case "ghost_final":
					gm := regexp.MustCompile(`^(\w+)\s*\(([\w\s,]*)\)\s*:=\s*(.*)$`).FindStringSubmatch(rest)
					if gm == nil {
						return nil, fmt.Errorf("%s:%d: bad ghost assignment %q", file, ln+1, rest)
					}
					cl := &Clause{Src: gm[3], Line: ln + 1, File: file, Label: gm[1]}
					for _, pn := range strings.Split(gm[2], ",") {
						cl.Props = append(cl.Props, strings.TrimSpace(pn))
					}
					cur.GhostFinal = append(cur.GhostFinal, cl)
					lastClause = cl
				case "callpre":
					gm := regexp.MustCompile(`^([\w.]+)\s*\(([\w\s,]*)\)\s*:\s*(.*)$`).FindStringSubmatch(rest)
					if gm == nil {
						return nil, fmt.Errorf("%s:%d: bad callpre clause %q", file, ln+1, rest)
					}
					cl := &Clause{Src: gm[3], Line: ln + 1, File: file, Label: gm[1]}
					for _, pn := range strings.Split(gm[2], ",") {
						cl.Props = append(cl.Props, strings.TrimSpace(pn))
					}
					cur.CallPre = append(cur.CallPre, cl)
					lastClause = cl
				case "define":
					cl := &Clause{Src: rest, Line: ln + 1, File: file}
					cur.Defines = append(cur.Defines, cl)
					lastClause = cl
				case "reveal":
					cur.Reveal = append(cur.Reveal, strings.Fields(rest)...)
				case "use":
					cl := &Clause{Src: rest, Line: ln + 1, File: file}
					cur.Uses = append(cur.Uses, cl)
					lastClause = cl
				case "assigns":
					cur.Assigns = rest
				case "trusted":
					cur.Trusted = true
					cur.TrustWhy = rest
				case "noinline":
					cur.NoInline = true
				case "pure":
					cur.Pure = true
				case "allocates":
					cur.Allocates = true
				case "ghost":
					cur.Ghosts = append(cur.Ghosts, rest)
					in := false
					if strings.HasPrefix(rest, "in ") {
						in = true
						rest = strings.TrimSpace(rest[3:])
					}
					if m := regexp.MustCompile(`^(\w+)\s*\((.*?)\)`).FindStringSubmatch(rest); m != nil {
						cur.GhostFns = append(cur.GhostFns, &GhostDecl{Name: m[1], Params: parseNames(m[2]), In: in})
					}
				case "loop":
					// loop N: invariant e | decreases e | ghost_update ...
					m := regexp.MustCompile(`^(\d+)\s*:\s*(\w+)\s+(.*)$`).FindStringSubmatch(rest)
					if m == nil {
						return nil, fmt.Errorf("%s:%d: bad loop clause %q", file, ln+1, rest)
					}
					n, _ := strconv.Atoi(m[1])
					ls := cur.Loops[n]
					if ls == nil {
						ls = &LoopSpec{}
						cur.Loops[n] = ls
					}
					cl := &Clause{Src: m[3], Line: ln + 1, File: file}
					switch m[2] {
					case "invariant":
						ls.Invariants = append(ls.Invariants, cl)
					case "decreases":
						ls.Decreases = cl
					case "use":
						ls.Uses = append(ls.Uses, cl)
					case "exit":
						ls.Exits = append(ls.Exits, cl)
					case "unroll":
						ls.Unroll, _ = strconv.Atoi(strings.TrimSpace(m[3]))
						cl.Src = "true"
						lastClause = nil
						continue
					case "ghost_update", "ghost_init":
						gm := regexp.MustCompile(`^(\w+)\s*\(([\w\s,]*)\)\s*:=\s*(.*)$`).FindStringSubmatch(m[3])
						if gm == nil {
							return nil, fmt.Errorf("%s:%d: bad ghost assignment %q", file, ln+1, m[3])
						}
						cl.Label = gm[1]
						for _, pn := range strings.Split(gm[2], ",") {
							cl.Props = append(cl.Props, strings.TrimSpace(pn))
						}
						cl.Src = gm[3]
						if m[2] == "ghost_update" {
							ls.GhostUpd = append(ls.GhostUpd, cl)
						} else {
							ls.GhostInit = append(ls.GhostInit, cl)
						}
					default:
						return nil, fmt.Errorf("%s:%d: bad loop clause kind %q", file, ln+1, m[2])
					}
					lastClause = cl
				}
			default:
				// continuation of the previous clause / spec body / axiom
				switch {
				case lastClause != nil:
					lastClause.Src += " " + body
				case lastSpec != nil:
					lastSpec.BodySrc += " " + body
				case lastAxiom != nil:
					lastAxiom.Src += " " + body
				default:
					return nil, fmt.Errorf("%s:%d: stray contract line %q", file, ln+1, body)
				}
			}
		}
	}
	// parse expressions
	for _, fs := range cs.Funcs {
		var all []*Clause
		all = append(all, fs.Requires...)
		all = append(all, fs.Ensures...)
		all = append(all, fs.PanicsIf...)
		all = append(all, fs.GhostFinal...)
		all = append(all, fs.Uses...)
		all = append(all, fs.Defines...)
		all = append(all, fs.CallPre...)
		if fs.Decreases != nil {
			all = append(all, fs.Decreases)
		}
		for _, l := range fs.Loops {
			all = append(all, l.Invariants...)
			all = append(all, l.GhostUpd...)
			all = append(all, l.GhostInit...)
			all = append(all, l.Uses...)
			all = append(all, l.Exits...)
			if l.Decreases != nil {
				all = append(all, l.Decreases)
			}
		}
		for _, cl := range all {
			e, err := parseSpecExpr(cl.Src)
			if err != nil {
				return nil, fmt.Errorf("%s:%d: %v in %q", cl.File, cl.Line, err, cl.Src)
			}
			cl.Expr = e
		}
	}
	for _, sf := range cs.SpecFuncs {
		if strings.TrimSpace(sf.BodySrc) != "" && strings.TrimSpace(sf.BodySrc) != "uninterpreted" {
			e, err := parseSpecExpr(sf.BodySrc)
			if err != nil {
				return nil, fmt.Errorf("spec func %s: %v in %q", sf.Name, err, sf.BodySrc)
			}
			sf.Body = e
		}
	}
	for _, ax := range cs.Axioms {
		e, err := parseSpecExpr(ax.Src)
		if err != nil {
			return nil, fmt.Errorf("axiom %s: %v in %q", ax.Name, err, ax.Src)
		}
		ax.Expr = e
	}
	return cs, nil
}

var specFuncRe = regexp.MustCompile(`^func\s+(\w+)\s*\((.*?)\)\s*([\w\[\].]+)\s*(=\s*(.*)|uninterpreted)?$`)

func parseSpecFunc(s, pkg string) (*SpecFunc, error) {
	m := specFuncRe.FindStringSubmatch(strings.TrimSpace(s))
	if m == nil {
		return nil, fmt.Errorf("cannot parse spec func %q", s)
	}
	sf := &SpecFunc{Name: m[1], Ret: m[3], Pkg: pkg}
	src := "package p\nfunc f(" + m[2] + ")"
	f, err := parser.ParseFile(fsetSpec, "", src, 0)
	if err != nil {
		return nil, err
	}
	fd := f.Decls[0].(*ast.FuncDecl)
	for _, fl := range fd.Type.Params.List {
		ty := exprString(fl.Type)
		for _, n := range fl.Names {
			sf.Params = append(sf.Params, n.Name)
			sf.PTypes = append(sf.PTypes, ty)
		}
	}
	if strings.HasPrefix(m[4], "=") {
		sf.BodySrc = m[5]
	}
	return sf, nil
}

func exprString(e ast.Expr) string {
	switch x := e.(type) {
	case *ast.Ident:
		return x.Name
	case *ast.ArrayType:
		return "[]" + exprString(x.Elt)
	case *ast.StarExpr:
		return "*" + exprString(x.X)
	case *ast.SelectorExpr:
		return exprString(x.X) + "." + x.Sel.Name
	}
	return "?"
}

// ---------------------------------------------------------------------------
// Spec expression surface syntax -> Go expression syntax.
//   A ==> B                       implies(A, B)           (right associative, lowest precedence)
//   A <==> B                      iff(A, B)
//   forall k in lo..hi: P         forall(k, lo, hi, P)
//   exists k in lo..hi: P         exists(k, lo, hi, P)
//   forall x: P                   forallint(x, P)
//   c ? a : b                     not supported; use ite(c, a, b)

func parseSpecExpr(src string) (ast.Expr, error) {
	g, err := rewriteSpec(src)
	if err != nil {
		return nil, err
	}
	e, err := parser.ParseExpr(g)
	if err != nil {
		return nil, fmt.Errorf("%v (rewritten: %s)", err, g)
	}
	return e, nil
}

// rewriteSpec rewrites one expression (no top-level commas).
func rewriteSpec(s string) (string, error) {
	s = strings.TrimSpace(s)
	// quantifier prefix
	if m := regexp.MustCompile(`^(forall|exists)\s+(\w+)\s+in\s+`).FindStringSubmatch(s); m != nil {
		rest := s[len(m[0]):]
		// find ".." at depth 0 then ":" at depth 0
		i := findTop(rest, "..")
		if i < 0 {
			return "", fmt.Errorf("quantifier without range")
		}
		j := findTop(rest[i+2:], ":")
		if j < 0 {
			return "", fmt.Errorf("quantifier without body")
		}
		lo, err := rewriteSpec(rest[:i])
		if err != nil {
			return "", err
		}
		hi, err := rewriteSpec(rest[i+2 : i+2+j])
		if err != nil {
			return "", err
		}
		body, err := rewriteSpec(rest[i+2+j+1:])
		if err != nil {
			return "", err
		}
		return fmt.Sprintf("%s(%s, %s, %s, %s)", m[1], m[2], lo, hi, body), nil
	}
	if m := regexp.MustCompile(`^(forall|exists)\s+(\w+)\s*:`).FindStringSubmatch(s); m != nil {
		body, err := rewriteSpec(s[len(m[0]):])
		if err != nil {
			return "", err
		}
		return fmt.Sprintf("%sint(%s, %s)", m[1], m[2], body), nil
	}
	// <==> then ==> at depth 0
	if i := findTop(s, "<==>"); i >= 0 {
		a, err := rewriteSpec(s[:i])
		if err != nil {
			return "", err
		}
		b, err := rewriteSpec(s[i+4:])
		if err != nil {
			return "", err
		}
		return fmt.Sprintf("iff(%s, %s)", a, b), nil
	}
	if i := findTop(s, "==>"); i >= 0 {
		a, err := rewriteSpec(s[:i])
		if err != nil {
			return "", err
		}
		b, err := rewriteSpec(s[i+3:])
		if err != nil {
			return "", err
		}
		return fmt.Sprintf("implies(%s, %s)", a, b), nil
	}
	// && at depth 0 when an operand contains a quantifier or implication is handled by recursion
	// into parenthesised groups and call arguments
	var out strings.Builder
	i := 0
	for i < len(s) {
		ch := s[i]
		switch ch {
		case '(', '[':
			j := matchClose(s, i)
			if j < 0 {
				return "", fmt.Errorf("unbalanced %q", s)
			}
			inner := s[i+1 : j]
			parts := splitTop(inner, ',')
			out.WriteByte(ch)
			for k, p := range parts {
				if k > 0 {
					out.WriteString(", ")
				}
				if strings.TrimSpace(p) == "" {
					continue
				}
				if ch == '[' {
					// slices a[lo:hi] keep ':' - rewrite pieces around ':'
					segs := splitTop(p, ':')
					for q, sg := range segs {
						if q > 0 {
							out.WriteByte(':')
						}
						if strings.TrimSpace(sg) == "" {
							continue
						}
						r, err := rewriteSpec(sg)
						if err != nil {
							return "", err
						}
						out.WriteString(r)
					}
					continue
				}
				r, err := rewriteSpec(p)
				if err != nil {
					return "", err
				}
				out.WriteString(r)
			}
			out.WriteByte(s[j])
			i = j + 1
		case '\'', '"', '`':
			j := i + 1
			for j < len(s) && s[j] != ch {
				if s[j] == '\\' {
					j++
				}
				j++
			}
			out.WriteString(s[i : j+1])
			i = j + 1
		default:
			out.WriteByte(ch)
			i++
		}
	}
	return out.String(), nil
}

func matchClose(s string, i int) int {
	open := s[i]
	var cl byte = ')'
	if open == '[' {
		cl = ']'
	}
	d := 0
	for j := i; j < len(s); j++ {
		switch s[j] {
		case '\'', '"', '`':
			q := s[j]
			j++
			for j < len(s) && s[j] != q {
				if s[j] == '\\' {
					j++
				}
				j++
			}
		case open:
			d++
		case cl:
			d--
			if d == 0 {
				return j
			}
		}
	}
	return -1
}

// findTop finds tok at bracket depth 0 (first occurrence), skipping quoted text.
func findTop(s, tok string) int {
	d := 0
	for i := 0; i < len(s); i++ {
		switch s[i] {
		case '\'', '"', '`':
			q := s[i]
			i++
			for i < len(s) && s[i] != q {
				if s[i] == '\\' {
					i++
				}
				i++
			}
			continue
		case '(', '[', '{':
			d++
		case ')', ']', '}':
			d--
		}
		if d == 0 && strings.HasPrefix(s[i:], tok) {
			if tok == "==>" && i > 0 && s[i-1] == '<' {
				continue
			}
			if tok == ":" && strings.HasPrefix(s[i:], ":=") {
				continue
			}
			return i
		}
	}
	return -1
}

func splitTop(s string, sep byte) []string {
	var parts []string
	d := 0
	last := 0
	for i := 0; i < len(s); i++ {
		switch s[i] {
		case '\'', '"', '`':
			q := s[i]
			i++
			for i < len(s) && s[i] != q {
				if s[i] == '\\' {
					i++
				}
				i++
			}
			continue
		case '(', '[', '{':
			d++
		case ')', ']', '}':
			d--
		}
		if d == 0 && s[i] == sep {
			parts = append(parts, s[last:i])
			last = i + 1
		}
	}
	parts = append(parts, s[last:])
	return parts
}
