package main

// Assumed contracts of external (standard library / dependency) functions.

import (
	"fmt"
	"go/ast"
	"go/types"
)

type externFn func(c *FnCtx, st *State, call *ast.CallExpr, recv *Val, args []Val) Val

var externs = map[string]externFn{}

func init() {
	externs["bytes.IndexByte"] = func(c *FnCtx, st *State, call *ast.CallExpr, recv *Val, args []Val) Val {
		s, b := args[0], args[1]
		r := c.fresh("idx", "Int")
		h := c.heapSym(st, c.elemKey(types.Typ[types.Uint8]), "Int", 2)
		c.assume(st, sAnd(sx("<=", "(- 1)", r), sx("<", r, s.ln())))
		c.assume(st, sImp(sx(">=", r, "0"), sx("=", sx(h, s.ref(), sx("+", s.off(), r)), b.S)))
		// no earlier occurrence (and none at all when r == -1)
		c.assume(st, fmt.Sprintf("(forall ((k Int)) (! (=> (and (<= 0 k) (< k (ite (< %s 0) %s %s))) (not (= (%s %s (+ %s k)) %s))) :pattern ((%s %s (+ %s k)))))",
			r, s.ln(), r, h, s.ref(), s.off(), b.S, h, s.ref(), s.off()))
		return Val{K: KInt, S: r, T: types.Typ[types.Int]}
	}
	externs["bytes.Equal"] = func(c *FnCtx, st *State, call *ast.CallExpr, recv *Val, args []Val) Val {
		a, b := args[0], args[1]
		r := c.fresh("eq", "Bool")
		h := c.heapSym(st, c.elemKey(types.Typ[types.Uint8]), "Int", 2)
		c.assume(st, sImp(r, sx("=", a.ln(), b.ln())))
		c.assume(st, sImp(r, fmt.Sprintf("(forall ((k Int)) (=> (and (<= 0 k) (< k %s)) (= (%s %s (+ %s k)) (%s %s (+ %s k)))))", a.ln(), h, a.ref(), a.off(), h, b.ref(), b.off())))
		// not equal: lengths differ or some witness index differs
		w := c.fresh("neqw", "Int")
		c.assume(st, sImp(sNot(r), sOr(sNot(sx("=", a.ln(), b.ln())),
			sAnd(sx("<=", "0", w), sx("<", w, a.ln()), sNot(sx("=", sx(h, a.ref(), sx("+", a.off(), w)), sx(h, b.ref(), sx("+", b.off(), w))))))))
		return vBool(r)
	}
}
