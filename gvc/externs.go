package main

// Assumed contracts of external (standard library / dependency) functions.

import (
	"fmt"
	"go/ast"
	"go/types"
)

type externFn func(c *FnCtx, st *State, call *ast.CallExpr, recv *Val, args []Val) Val

var externs = map[string]externFn{}

func init() {
	externs["bytes.IndexByte"] = func(c *FnCtx, st *State, call *ast.CallExpr, recv *Val, args []Val) Val {
		s, b := args[0], args[1]
		r := c.fresh("idx", "Int")
		h := c.heapSym(st, c.elemKey(types.Typ[types.Uint8]), "Int", 2)
		c.assume(st, sAnd(sx("<=", "(- 1)", r), sx("<", r, s.ln())))
		c.assume(st, sImp(sx(">=", r, "0"), sx("=", sx(h, s.ref(), sx("+", s.off(), r)), b.S)))
		// no earlier occurrence (and none at all when r == -1)
		c.assume(st, fmt.Sprintf("(forall ((k Int)) (! (=> (and (<= 0 k) (< k (ite (< %s 0) %s %s))) (not (= (%s %s (+ %s k)) %s))) :pattern ((%s %s (+ %s k)))))",
			r, s.ln(), r, h, s.ref(), s.off(), b.S, h, s.ref(), s.off()))
		return Val{K: KInt, S: r, T: types.Typ[types.Int]}
	}
	externs["bytes.Equal"] = func(c *FnCtx, st *State, call *ast.CallExpr, recv *Val, args []Val) Val {
		a, b := args[0], args[1]
		r := c.fresh("eq", "Bool")
		h := c.heapSym(st, c.elemKey(types.Typ[types.Uint8]), "Int", 2)
		c.assume(st, sImp(r, sx("=", a.ln(), b.ln())))
		// equal contents, stated once per slice with the absolute index as trigger
		c.assume(st, sImp(r, fmt.Sprintf("(forall ((j Int)) (! (=> (and (<= %s j) (< j (+ %s %s))) (= (%s %s j) (%s %s (+ %s (- j %s))))) :pattern ((%s %s j))))",
			a.off(), a.off(), a.ln(), h, a.ref(), h, b.ref(), b.off(), a.off(), h, a.ref())))
		c.assume(st, sImp(r, fmt.Sprintf("(forall ((j Int)) (! (=> (and (<= %s j) (< j (+ %s %s))) (= (%s %s j) (%s %s (+ %s (- j %s))))) :pattern ((%s %s j))))",
			b.off(), b.off(), b.ln(), h, b.ref(), h, a.ref(), a.off(), b.off(), h, b.ref())))
		// not equal: lengths differ or some witness index differs
		w := c.fresh("neqw", "Int")
		c.assume(st, sImp(sNot(r), sOr(sNot(sx("=", a.ln(), b.ln())),
			sAnd(sx("<=", "0", w), sx("<", w, a.ln()), sNot(sx("=", sx(h, a.ref(), sx("+", a.off(), w)), sx(h, b.ref(), sx("+", b.off(), w))))))))
		return vBool(r)
	}
}

// sort.Sort: in-place permutation of the underlying slice; sorted w.r.t. Less when the
// element order is known to be a strict weak order (BySegment: lemmas segLess*).
func init() {
	externs["sort.Sort"] = func(c *FnCtx, st *State, call *ast.CallExpr, recv *Val, args []Val) Val {
		at := c.typeOf(call.Args[0])
		sl, ok := at.Underlying().(*types.Slice)
		if !ok {
			c.unsupport("sort.Sort on non-slice "+at.String(), call.Pos())
			return Val{K: KUnit}
		}
		pv := c.evalExpr(st, call.Args[0]) // pure re-evaluation to get the unboxed slice header
		if pv.K != KSlice {
			pv = c.payload(args[0].S, at)
		}
		ref, off, ln := pv.ref(), pv.off(), pv.ln()
		elem := sl.Elem()
		ek := c.elemKey(elem)
		c.nfresh++
		perm := fmt.Sprintf("sortPerm!%d", c.nfresh)
		inv := fmt.Sprintf("sortInv!%d", c.nfresh)
		c.declare(perm, []string{"Int"}, "Int")
		c.declare(inv, []string{"Int"}, "Int")
		c.ghostFns["sortPerm"] = perm
		c.ghostFns["sortInv"] = inv
		type comp struct{ old, nw string }
		var comps []comp
		c.w.proto(elem, "", func(path, sort string) string {
			key := ek + path
			heapSorts[key] = sort
			o, n := c.havocHeap(st, key)
			comps = append(comps, comp{o, n})
			return ""
		})
		inRange := func(k string) string { return sAnd(sx("<=", "0", k), sx("<", k, ln)) }
		absRange := func(j string) string { return sAnd(sx("<=", off, j), sx("<", j, sx("+", off, ln))) }
		for _, cp := range comps {
			// frame
			c.assume(st, fmt.Sprintf("(forall ((r Int) (i Int)) (! (=> (not (and (= r %s) (<= %s i) (< i (+ %s %s)))) (= (%s r i) (%s r i))) :pattern ((%s r i))))",
				ref, off, off, ln, cp.nw, cp.old, cp.nw))
			// permutation
			c.assume(st, fmt.Sprintf("(forall ((j Int)) (! (=> %s (= (%s %s j) (%s %s (+ %s (%s (- j %s)))))) :pattern ((%s %s j))))",
				absRange("j"), cp.nw, ref, cp.old, ref, off, perm, off, cp.nw, ref))
		}
		c.assume(st, fmt.Sprintf("(forall ((k Int)) (! (=> %s (and %s (= (%s (%s k)) k))) :pattern ((%s k))))", inRange("k"), inRange(sx(perm, "k")), inv, perm, perm))
		c.assume(st, fmt.Sprintf("(forall ((k Int)) (! (=> %s (and %s (= (%s (%s k)) k))) :pattern ((%s k))))", inRange("k"), inRange(sx(inv, "k")), perm, inv, inv))
		if n, ok := at.(*types.Named); ok && n.Obj().Name() == "BySegment" {
			// sorted: for a < b not Less(b, a), Less = lexicographic order on normalised segments
			c.trusted["sort.Sort leaves the slice ordered w.r.t. BySegment.Less (licensed by lemmas segLessIrreflexive/Transitive/IncomparableTransitive)"] = true
			a0 := sx(comps[0].nw, ref, "a")
			a1 := sx(comps[1].nw, ref, "a")
			b0 := sx(comps[0].nw, ref, "b")
			b1 := sx(comps[1].nw, ref, "b")
			less := func(x0, x1, y0, y1 string) string {
				return sOr(sx("<", sx("imin", x0, x1), sx("imin", y0, y1)),
					sAnd(sx("=", sx("imin", x0, x1), sx("imin", y0, y1)), sx("<", sx("imax", x0, x1), sx("imax", y0, y1))))
			}
			c.assume(st, fmt.Sprintf("(forall ((a Int) (b Int)) (! (=> (and (<= %s a) (< a b) (< b (+ %s %s))) (not %s)) :pattern (%s %s)))", off, off, ln, less(b0, b1, a0, a1), a0, b0))
		}
		return Val{K: KUnit}
	}
}

// fmt.Sprintf: only the format "%9d" (ORIGIN line index) is given a contract:
// for 0 <= v < 10^9 the result is v right-aligned in 9 columns.
// dig9(v, k) is uninterpreted for the solver: the proofs only need that the same (v, k) give
// the same byte.  Its meaning (documented in the contract files and used by the replay
// oracle): byte k of v printed right-aligned in 9 columns.
const dig9Def = `(declare-fun dig9 (Int Int) Int)`

func (c *FnCtx) useDig9() {
	if !c.declared["dig9"] {
		c.declared["dig9"] = true
		c.emit(dig9Def)
	}
}

func init() {
	externs["fmt.Sprintf"] = func(c *FnCtx, st *State, call *ast.CallExpr, recv *Val, args []Val) Val {
		s := c.fresh("sprintf", "Str")
		res := Val{K: KStr, S: s, T: types.Typ[types.String]}
		if tv, ok := c.info.Types[call.Args[0]]; ok && tv.Value != nil && tv.Value.ExactString() == `"%9d"` && len(call.Args) == 2 {
			v := c.evalExpr(st, call.Args[1])
			c.useDig9()
			c.assume(st, sx(">=", sx("slen", s), "9"))
			c.assume(st, sImp(sAnd(sx("<=", "0", v.S), sx("<", v.S, "1000000000")),
				sAnd(sx("=", sx("slen", s), "9"),
					fmt.Sprintf("(forall ((k Int)) (! (=> (and (<= 0 k) (< k 9)) (= (sat %s k) (dig9 %s k))) :pattern ((sat %s k))))", s, v.S, s))))
			return res
		}
		c.unmodelled["fmt.Sprintf result text"] = true
		return res
	}
}

// sort.Search(n, f): smallest index in [0,n] at which f holds, assuming f is monotone; without
// that assumption the result r still satisfies (r == n or f(r)) and (r == 0 or !f(r-1)).
// f is evaluated by inlining the function literal; it is called only with 0 <= j < n.
func init() {
	externs["sort.Search"] = func(c *FnCtx, st *State, call *ast.CallExpr, recv *Val, args []Val) Val {
		n := args[0].S
		r := c.fresh("search", "Int")
		res := Val{K: KInt, S: r, T: types.Typ[types.Int]}
		c.assume(st, sAnd(sx("<=", "0", r), sx("<=", r, n)))
		fv := args[1]
		if fv.Lit == nil {
			c.unmodelled["sort.Search with a non-literal predicate"] = true
			return res
		}
		sig := c.typeOf(fv.Lit.lit).(*types.Signature)
		evalAt := func(j string, guard string) string {
			// the predicate is evaluated in a scratch copy of the state: it must be pure
			// (its calls are checked against their contracts), so only its value is kept
			tmp := st.clone()
			tmp.pc = c.define("pc", "Bool", sAnd(st.pc, guard))
			v := c.inlineBody(tmp, "sort.Search$pred", sig, fv.Lit.lit.Body, nil, nil, []Val{{K: KInt, S: j, T: types.Typ[types.Int]}}, fv.Lit.info, c.pkg, true)
			return v.S
		}
		// safety of the predicate for an arbitrary index in range
		j0 := c.fresh("j", "Int")
		evalAt(j0, sAnd(sx("<=", "0", j0), sx("<", j0, n)))
		at := evalAt(r, sx("<", r, n))
		before := evalAt(sx("-", r, "1"), sx(">", r, "0"))
		c.assume(st, sOr(sx("=", r, n), at))
		c.assume(st, sOr(sx("=", r, "0"), sNot(before)))
		return res
	}
}

// flip.Bytes(p): reverses p in place.
func init() {
	externs["github.com/go-flip/flip.Bytes"] = func(c *FnCtx, st *State, call *ast.CallExpr, recv *Val, args []Val) Val {
		p := args[0]
		key := c.elemKey(types.Typ[types.Uint8])
		o, n := c.havocHeap(st, key)
		c.assume(st, fmt.Sprintf("(forall ((r Int) (i Int)) (! (=> (not (and (= r %s) (<= %s i) (< i (+ %s %s)))) (= (%s r i) (%s r i))) :pattern ((%s r i))))",
			p.ref(), p.off(), p.off(), p.ln(), n, o, n))
		c.assume(st, fmt.Sprintf("(forall ((j Int)) (! (=> (and (<= %s j) (< j (+ %s %s))) (= (%s %s j) (%s %s (- (+ (+ %s %s) %s) (+ j 1))))) :pattern ((%s %s j))))",
			p.off(), p.off(), p.ln(), n, p.ref(), o, p.ref(), p.off(), p.off(), p.ln(), n, p.ref()))
		return Val{K: KUnit}
	}
}

// errors.New / fmt.Errorf: a non-nil error value (message text is not modelled).
func init() {
	nonNilErr := func(c *FnCtx, st *State, call *ast.CallExpr, recv *Val, args []Val) Val {
		e := c.fresh("err", "Ifc")
		c.fact(sNot(sx("=", sx("tag", e), "0")))
		return Val{K: KIfc, S: e, T: c.typeOf(call)}
	}
	externs["errors.New"] = nonNilErr
	externs["fmt.Errorf"] = nonNilErr
	externs["github.com/go-pars/pars.NewError"] = nonNilErr
}

// (*regexp.Regexp).MatchString: an unknown but fixed relation between the compiled
// expression and the string (regexp semantics are not modelled).
func init() {
	externs["(*regexp.Regexp).MatchString"] = func(c *FnCtx, st *State, call *ast.CallExpr, recv *Val, args []Val) Val {
		c.declare("reMatch", []string{"Int", "Str"}, "Bool")
		return vBool(sx("reMatch", recv.S, args[0].S))
	}
	pureExterns["(*regexp.Regexp).MatchString"] = true
}

// strings.Builder: the text is not modelled; writes return no error.  bytes.ToLower: a fresh
// slice with every ASCII upper-case letter lowered.
func init() {
	nop := func(c *FnCtx, st *State, call *ast.CallExpr, recv *Val, args []Val) Val {
		t := c.typeOf(call)
		if tup, ok := t.(*types.Tuple); ok {
			v := Val{K: KTuple}
			for i := 0; i < tup.Len(); i++ {
				v.F = append(v.F, c.w.zero(tup.At(i).Type()))
			}
			return v
		}
		if t == nil {
			return Val{K: KUnit}
		}
		if b, ok := t.Underlying().(*types.Basic); ok && b.Info()&types.IsString != 0 {
			return Val{K: KStr, S: c.fresh("built", "Str"), T: t}
		}
		return c.w.zero(t)
	}
	externs["(*strings.Builder).WriteString"] = nop
	externs["(*strings.Builder).WriteByte"] = nop
	externs["(*strings.Builder).String"] = nop
	pureExterns["(*strings.Builder).WriteString"] = true
	pureExterns["(*strings.Builder).WriteByte"] = true
	pureExterns["(*strings.Builder).String"] = true
	externs["bytes.ToLower"] = func(c *FnCtx, st *State, call *ast.CallExpr, recv *Val, args []Val) Val {
		p := args[0]
		out := c.makeSlice(st, types.Typ[types.Uint8], c.typeOf(call), p.ln(), p.ln(), false)
		h := c.heapSym(st, c.elemKey(types.Typ[types.Uint8]), "Int", 2)
		c.assume(st, fmt.Sprintf("(forall ((j Int)) (! (=> (and (<= 0 j) (< j %s)) (= (%s %s j) (ite (and (<= 65 (%s %s (+ %s j))) (<= (%s %s (+ %s j)) 90)) (+ (%s %s (+ %s j)) 32) (%s %s (+ %s j))))) :pattern ((%s %s j))))",
			p.ln(), h, out.ref(), h, p.ref(), p.off(), h, p.ref(), p.off(), h, p.ref(), p.off(), h, p.ref(), p.off(), h, out.ref()))
		return out
	}
}

// regexp: QuoteMeta(s) is a pattern matching exactly the text s ("unquote" recovers it);
// MustCompile returns a non-nil expression; FindAllIndex returns [start, end) pairs inside p.
func init() {
	externs["regexp.QuoteMeta"] = func(c *FnCtx, st *State, call *ast.CallExpr, recv *Val, args []Val) Val {
		c.declare("unquote", []string{"Str"}, "Str")
		r := c.fresh("quoted", "Str")
		c.fact(sx("=", sx("unquote", r), args[0].S))
		return Val{K: KStr, S: r, T: types.Typ[types.String]}
	}
	pureExterns["regexp.QuoteMeta"] = true
	externs["regexp.MustCompile"] = func(c *FnCtx, st *State, call *ast.CallExpr, recv *Val, args []Val) Val {
		t := c.typeOf(call)
		p := c.fresh("re", "Int")
		c.fact(sx(">", p, "0"))
		v := Val{K: KPtr, S: p, T: t}
		if pt, ok := t.Underlying().(*types.Pointer); ok {
			v.Elem = pt.Elem()
		}
		return v
	}
	pureExterns["regexp.MustCompile"] = true
	externs["(*regexp.Regexp).FindAllIndex"] = func(c *FnCtx, st *State, call *ast.CallExpr, recv *Val, args []Val) Val {
		t := c.typeOf(call) // [][]int
		sl := t.Underlying().(*types.Slice)
		out := c.freshVal(t, "pairs")
		for _, f := range c.typeFacts(out) {
			c.assume(st, f)
		}
		c.bumpAlloc(st)
		c.refsBelow(st, out, st.alloc)
		ek := c.elemKey(sl.Elem())
		hl := c.heapSym(st, ek+"_len", "Int", 2)
		c.assume(st, fmt.Sprintf("(forall ((j Int)) (! (=> (and (<= %s j) (< j (+ %s %s))) (= (%s %s j) 2)) :pattern ((%s %s j))))",
			out.off(), out.off(), out.ln(), hl, out.ref(), hl, out.ref()))
		return out
	}
	pureExterns["(*regexp.Regexp).FindAllIndex"] = true
}

// ---------------------------------------------------------------------------
// Typestate ghosts for the cache protocol (C13): integer ghost variables updated by external
// calls.  "hs" counts what has been fed to the hash since the last Reset (Write: +1, io.Copy
// into it: +100); Sum records it in "sumstate"; Seek(off, SeekStart) records "fpos".

func (c *FnCtx) ghostIntGet(st *State, name string) string {
	heapSorts["G_"+name] = "Int"
	return sx(c.heapSym(st, "G_"+name, "Int", 1), "0")
}

func (c *FnCtx) ghostIntSet(st *State, name, val string) {
	key := "G_" + name
	heapSorts[key] = "Int"
	c.heapSym(st, key, "Int", 1)
	nw := c.newHeapVersion(key)
	c.declared[nw] = true
	c.isMacro[nw] = true
	c.emit(fmt.Sprintf("(define-fun %s ((z Int)) Int %s)", nw, val))
	st.heaps[key] = nw
}

func init() {
	externs["(hash.Hash).Reset"] = func(c *FnCtx, st *State, call *ast.CallExpr, recv *Val, args []Val) Val {
		c.ghostIntSet(st, "hs", "0")
		return Val{K: KUnit}
	}
	externs["(io.Writer).Write"] = func(c *FnCtx, st *State, call *ast.CallExpr, recv *Val, args []Val) Val {
		// used for hash.Hash.Write (embedded io.Writer): one more chunk fed to the hash
		c.ghostIntSet(st, "hs", sx("+", c.ghostIntGet(st, "hs"), "1"))
		n := c.fresh("n", "Int")
		c.assume(st, sAnd(sx("<=", "0", n), sx("<=", n, args[0].ln())))
		return Val{K: KTuple, F: []Val{{K: KInt, S: n, T: types.Typ[types.Int]}, {K: KIfc, S: c.fresh("err", "Ifc")}}}
	}
	externs["(hash.Hash).Sum"] = func(c *FnCtx, st *State, call *ast.CallExpr, recv *Val, args []Val) Val {
		c.ghostIntSet(st, "sumstate", c.ghostIntGet(st, "hs"))
		c.ghostIntSet(st, "sumcount", sx("+", c.ghostIntGet(st, "sumcount"), "1"))
		t := c.typeOf(call)
		out := c.freshVal(t, "sum")
		c.ghost["lastSum"] = out
		for _, f := range c.typeFacts(out) {
			c.assume(st, f)
		}
		c.assume(st, sx(">=", out.ref(), st.alloc))
		c.bumpAlloc(st)
		c.refsBelow(st, out, st.alloc)
		return out
	}
	externs["io.Copy"] = func(c *FnCtx, st *State, call *ast.CallExpr, recv *Val, args []Val) Val {
		// a copy into a hash feeds it (hs += 100) from the current file position; a copy into
		// anything else (a file, the output) only counts as a plain copy
		toHash := false
		if t := c.typeOf(call.Args[0]); t != nil {
			if n, ok := t.(*types.Named); ok && n.Obj().Pkg() != nil && n.Obj().Pkg().Path() == "hash" && n.Obj().Name() == "Hash" {
				toHash = true
			}
		}
		if !toHash {
			c.ghostIntSet(st, "plaincopies", sx("+", c.ghostIntGet(st, "plaincopies"), "1"))
			n := c.fresh("n", "Int")
			c.fact(sx(">=", n, "0"))
			return Val{K: KTuple, F: []Val{{K: KInt, S: n, T: types.Typ[types.Int64]}, {K: KIfc, S: c.fresh("err", "Ifc")}}}
		}
		c.ghostIntSet(st, "hs", sx("+", c.ghostIntGet(st, "hs"), "100"))
		c.ghostIntSet(st, "copyfrom", c.ghostIntGet(st, "fpos"))
		// reading moves the file position: it is unknown (and not the start) until the next Seek
		after := c.fresh("posAfterCopy", "Int")
		c.fact(sx(">", after, "0"))
		c.ghostIntSet(st, "fpos", after)
		n := c.fresh("n", "Int")
		c.fact(sx(">=", n, "0"))
		return Val{K: KTuple, F: []Val{{K: KInt, S: n, T: types.Typ[types.Int64]}, {K: KIfc, S: c.fresh("err", "Ifc")}}}
	}
	externs["(*os.File).Seek"] = func(c *FnCtx, st *State, call *ast.CallExpr, recv *Val, args []Val) Val {
		// whence is io.SeekStart (0) at every call site in the repository; otherwise unknown
		c.ghostIntSet(st, "fpos", sIte(sx("=", args[1].S, "0"), args[0].S, c.fresh("pos", "Int")))
		return Val{K: KTuple, F: []Val{{K: KInt, S: c.fresh("pos", "Int"), T: types.Typ[types.Int64]}, {K: KIfc, S: c.fresh("err", "Ifc")}}}
	}
}

func init() {
	externs["(hash.Hash).Size"] = func(c *FnCtx, st *State, call *ast.CallExpr, recv *Val, args []Val) Val {
		c.declare("hashSize", []string{"Ifc"}, "Int")
		t := sx("hashSize", recv.S)
		c.fact(sAnd(sx("<=", "1", t), sx("<=", t, "64")))
		c.ghostIntSet(st, "hsize", t)
		return Val{K: KInt, S: t, T: types.Typ[types.Int]}
	}
	pureExterns["(hash.Hash).Size"] = true
	openLike := func(c *FnCtx, st *State, call *ast.CallExpr, recv *Val, args []Val) Val {
		f := c.fresh("file", "Int")
		e := c.fresh("err", "Ifc")
		c.fact(sx(">=", f, "0"))
		c.fact(sImp(sx("=", sx("tag", e), "0"), sx(">", f, "0")))
		c.ghostIntSet(st, "fpos", "0")
		tup := c.typeOf(call).(*types.Tuple)
		fv := Val{K: KPtr, S: f, T: tup.At(0).Type()}
		if pt, ok := tup.At(0).Type().Underlying().(*types.Pointer); ok {
			fv.Elem = pt.Elem()
		}
		return Val{K: KTuple, F: []Val{fv, {K: KIfc, S: e}}}
	}
	externs["os.Open"] = openLike
	externs["os.Create"] = openLike
}

// io.Reader.Read(p): reads n <= len(p) bytes into the front of p; nothing else is written.
func init() {
	externs["(io.Reader).Read"] = func(c *FnCtx, st *State, call *ast.CallExpr, recv *Val, args []Val) Val {
		p := args[0]
		key := c.elemKey(types.Typ[types.Uint8])
		o, nw := c.havocHeap(st, key)
		c.assume(st, fmt.Sprintf("(forall ((r Int) (i Int)) (! (=> (not (and (= r %s) (<= %s i) (< i (+ %s %s)))) (= (%s r i) (%s r i))) :pattern ((%s r i))))",
			p.ref(), p.off(), p.off(), p.ln(), nw, o, nw))
		n := c.fresh("nread", "Int")
		c.assume(st, sAnd(sx("<=", "0", n), sx("<=", n, p.ln())))
		c.ghost["lastReadN"] = Val{K: KInt, S: n, T: types.Typ[types.Int]}
		return Val{K: KTuple, F: []Val{{K: KInt, S: n, T: types.Typ[types.Int]}, {K: KIfc, S: c.fresh("err", "Ifc")}}}
	}
}

// ---------------------------------------------------------------------------
// go-pars primitives (C07).  The input is unconstrained: every token may have any length and
// content.  Request(n) needs n >= 0 (a negative request makes Buffer slice backwards);
// Buffer() has exactly the requested length when the request succeeded.

func (c *FnCtx) havocPtrStruct(st *State, elem types.Type) {
	pk := "P_" + c.elemKey(elem)
	c.w.proto(elem, "", func(path, sort string) string {
		heapSorts[pk+path] = sort
		c.havocHeap(st, pk+path)
		return ""
	})
}

func (c *FnCtx) resultType() types.Type {
	for _, imp := range c.pkg.Types.Imports() {
		if imp.Path() == "github.com/go-pars/pars" {
			if o := imp.Scope().Lookup("Result"); o != nil {
				return o.Type()
			}
		}
	}
	return nil
}

func init() {
	const P = "github.com/go-pars/pars."
	errRes := func(c *FnCtx) Val { return Val{K: KIfc, S: c.fresh("err", "Ifc")} }
	externs["(*"+P+"State).Request"] = func(c *FnCtx, st *State, call *ast.CallExpr, recv *Val, args []Val) Val {
		c.oblige(st, "pre", sx("<=", "0", args[0].S), "State.Request needs a non-negative size: "+nodeStr(call), call.Pos())
		c.ghostIntSet(st, "req", args[0].S)
		e := errRes(c)
		c.ghostIntSet(st, "reqok", sIte(sx("=", sx("tag", e.S), "0"), "1", "0"))
		return e
	}
	externs["("+P+"State).Buffer"] = func(c *FnCtx, st *State, call *ast.CallExpr, recv *Val, args []Val) Val {
		out := c.freshVal(c.typeOf(call), "buf")
		for _, f := range c.typeFacts(out) {
			c.assume(st, f)
		}
		c.refsBelow(st, out, st.alloc)
		req := c.ghostIntGet(st, "req")
		c.assume(st, sAnd(sx("<=", out.ln(), req), sImp(sx("=", c.ghostIntGet(st, "reqok"), "1"), sx("=", out.ln(), req))))
		return out
	}
	nop := func(c *FnCtx, st *State, call *ast.CallExpr, recv *Val, args []Val) Val {
		t := c.typeOf(call)
		if t == nil {
			return Val{K: KUnit}
		}
		if tup, ok := t.(*types.Tuple); ok && tup.Len() == 0 {
			return Val{K: KUnit}
		}
		v := c.freshVal(t, "r")
		for _, f := range c.typeFacts(v) {
			c.assume(st, f)
		}
		return v
	}
	for _, m := range []string{"Advance", "Push", "Pop", "Drop", "Clear"} {
		externs["(*"+P+"State)."+m] = nop
		pureExterns["(*"+P+"State)."+m] = true
	}
	externs["("+P+"State).Position"] = nop
	pureExterns["("+P+"State).Position"] = true
	pureExterns["("+P+"State).Buffer"] = true
	externs[P+"Next"] = nop
	externs[P+"Skip"] = nop
	pureExterns[P+"Next"] = true
	pureExterns[P+"Skip"] = true
	// parsers writing their result
	setResult := func(c *FnCtx, st *State, res Val, token *Val, value *Val) {
		rt := c.resultType()
		if rt == nil || res.K != KPtr {
			return
		}
		cur := c.readPtr(st, rt, res.S)
		nv := cur
		nv.F = append([]Val(nil), cur.F...)
		z := c.w.zero(rt)
		for i, n := range cur.Names {
			switch n {
			case "Token":
				if token != nil {
					nv.F[i] = *token
				} else {
					nv.F[i] = z.F[i]
				}
			case "Value":
				if value != nil {
					nv.F[i] = *value
				} else {
					nv.F[i] = z.F[i]
				}
			case "Children":
				nv.F[i] = z.F[i]
			}
		}
		c.writePtr(st, rt, res.S, nv)
	}
	externs[P+"Line"] = func(c *FnCtx, st *State, call *ast.CallExpr, recv *Val, args []Val) Val {
		rt := c.resultType()
		if rt != nil {
			if f, ok := c.w.zero(rt).field("Token"); ok {
				tok := c.freshVal(f.T, "line")
				for _, fc := range c.typeFacts(tok) {
					c.assume(st, fc)
				}
				c.refsBelow(st, tok, st.alloc)
				setResult(c, st, args[1], &tok, nil)
			}
		}
		return Val{K: KIfc, S: "nilIfc"}
	}
	externs[P+"Int"] = func(c *FnCtx, st *State, call *ast.CallExpr, recv *Val, args []Val) Val {
		e := errRes(c)
		n := c.fresh("int", "Int")
		boxed := c.box(Val{K: KInt, S: n, T: types.Typ[types.Int]}, types.Typ[types.Int])
		val := Val{K: KIfc, S: sIte(sx("=", sx("tag", e.S), "0"), boxed.S, c.fresh("val", "Ifc"))}
		setResult(c, st, args[1], nil, &val)
		return e
	}
	for _, m := range []string{"SetToken", "SetValue", "SetChildren"} {
		m := m
		externs["(*"+P+"Result)."+m] = func(c *FnCtx, st *State, call *ast.CallExpr, recv *Val, args []Val) Val {
			switch m {
			case "SetToken":
				setResult(c, st, *recv, &args[0], nil)
			case "SetValue":
				setResult(c, st, *recv, nil, &args[0])
			default:
				setResult(c, st, *recv, nil, nil)
			}
			return Val{K: KUnit}
		}
	}
	externs["strings.Repeat"] = func(c *FnCtx, st *State, call *ast.CallExpr, recv *Val, args []Val) Val {
		c.oblige(st, "pre", sx("<=", "0", args[1].S), "strings.Repeat needs a non-negative count: "+nodeStr(call), call.Pos())
		s := c.fresh("rep", "Str")
		c.assume(st, sx("=", sx("slen", s), sx("*", sx("slen", args[0].S), args[1].S)))
		return Val{K: KStr, S: s, T: types.Typ[types.String]}
	}
	pureExterns["strings.Repeat"] = true
	externs["strings.IndexByte"] = func(c *FnCtx, st *State, call *ast.CallExpr, recv *Val, args []Val) Val {
		s, b := args[0], args[1]
		r := c.fresh("idx", "Int")
		c.assume(st, sAnd(sx("<=", "(- 1)", r), sx("<", r, sx("slen", s.S))))
		c.assume(st, sImp(sx(">=", r, "0"), sx("=", sx("sat", s.S, r), b.S)))
		// the first occurrence: no earlier byte (no byte at all when the result is -1) equals b
		c.assume(st, fmt.Sprintf("(forall ((j Int)) (! (=> (and (<= 0 j) (< j (ite (>= %s 0) %s (slen %s)))) (not (= (sat %s j) %s))) :pattern ((sat %s j))))", r, r, s.S, s.S, b.S, s.S))
		return Val{K: KInt, S: r, T: types.Typ[types.Int]}
	}
	externs["bytes.HasPrefix"] = func(c *FnCtx, st *State, call *ast.CallExpr, recv *Val, args []Val) Val {
		s, p := args[0], args[1]
		r := c.fresh("hasprefix", "Bool")
		h := c.heapSym(st, c.elemKey(types.Typ[types.Uint8]), "Int", 2)
		c.assume(st, sImp(r, sx("<=", p.ln(), s.ln())))
		c.assume(st, sImp(r, fmt.Sprintf("(forall ((j Int)) (! (=> (and (<= %s j) (< j (+ %s %s))) (= (%s %s j) (%s %s (+ %s (- j %s))))) :pattern ((%s %s j))))",
			s.off(), s.off(), p.ln(), h, s.ref(), h, p.ref(), p.off(), s.off(), h, s.ref())))
		w := c.fresh("pfxw", "Int")
		c.assume(st, sImp(sNot(r), sOr(sx(">", p.ln(), s.ln()),
			sAnd(sx("<=", "0", w), sx("<", w, p.ln()), sNot(sx("=", sx(h, s.ref(), sx("+", s.off(), w)), sx(h, p.ref(), sx("+", p.off(), w))))))))
		return vBool(r)
	}
}

func init() {
	externs["bytes.Index"] = func(c *FnCtx, st *State, call *ast.CallExpr, recv *Val, args []Val) Val {
		s, sep := args[0], args[1]
		r := c.fresh("idx", "Int")
		c.assume(st, sAnd(sx("<=", "(- 1)", r), sImp(sx(">=", r, "0"), sx("<=", sx("+", r, sep.ln()), s.ln()))))
		return Val{K: KInt, S: r, T: types.Typ[types.Int]}
	}
	pureExterns["bytes.Index"] = true
}

// os.Remove / (*os.File).Name / Close: ghostint("removed") records that a file was removed.
func init() {
	externs["os.Remove"] = func(c *FnCtx, st *State, call *ast.CallExpr, recv *Val, args []Val) Val {
		c.ghostIntSet(st, "removed", "1")
		return Val{K: KIfc, S: c.fresh("err", "Ifc")}
	}
	externs["(*os.File).Name"] = func(c *FnCtx, st *State, call *ast.CallExpr, recv *Val, args []Val) Val {
		return Val{K: KStr, S: c.fresh("name", "Str"), T: types.Typ[types.String]}
	}
	pureExterns["(*os.File).Name"] = true
	externs["(*os.File).Close"] = func(c *FnCtx, st *State, call *ast.CallExpr, recv *Val, args []Val) Val {
		return Val{K: KIfc, S: c.fresh("err", "Ifc")}
	}
}

// (*os.File).Write(p): ghost integers record how many writes went straight to the file, the
// length of the last one and whether it consisted of zero bytes only (placeholder header).
func init() {
	externs["(*os.File).Write"] = func(c *FnCtx, st *State, call *ast.CallExpr, recv *Val, args []Val) Val {
		p := args[0]
		key := c.elemKey(types.Typ[types.Uint8])
		h := c.heapSym(st, key, "Int", 2)
		allZero := fmt.Sprintf("(forall ((k Int)) (=> (and (<= %s k) (< k (+ %s %s))) (= (%s %s k) 0)))", p.off(), p.off(), p.ln(), h, p.ref())
		c.ghostIntSet(st, "fwcount", sx("+", c.ghostIntGet(st, "fwcount"), "1"))
		c.ghostIntSet(st, "fwlen", p.ln())
		c.ghostIntSet(st, "fwzero", sIte(allZero, "1", "0"))
		n := c.fresh("n", "Int")
		c.assume(st, sAnd(sx("<=", "0", n), sx("<=", n, p.ln())))
		return Val{K: KTuple, F: []Val{{K: KInt, S: n, T: types.Typ[types.Int]}, {K: KIfc, S: c.fresh("err", "Ifc")}}}
	}
}

// ioutil.TempFile: a fresh file positioned at its start.
func init() {
	externs["io/ioutil.TempFile"] = func(c *FnCtx, st *State, call *ast.CallExpr, recv *Val, args []Val) Val {
		f := c.fresh("file", "Int")
		e := c.fresh("err", "Ifc")
		c.fact(sx(">=", f, "0"))
		c.fact(sImp(sx("=", sx("tag", e), "0"), sx(">", f, "0")))
		tup := c.typeOf(call).(*types.Tuple)
		fv := Val{K: KPtr, S: f, T: tup.At(0).Type()}
		if pt, ok := tup.At(0).Type().Underlying().(*types.Pointer); ok {
			fv.Elem = pt.Elem()
		}
		return Val{K: KTuple, F: []Val{fv, {K: KIfc, S: e}}}
	}
}

// strings.Index / strings.LastIndexAny / strings.IndexAny: -1, or a position at which the match
// fits (what the match is, is not modelled).
func init() {
	externs["strings.Index"] = func(c *FnCtx, st *State, call *ast.CallExpr, recv *Val, args []Val) Val {
		r := c.fresh("idx", "Int")
		c.assume(st, sAnd(sx("<=", "-1", r), sx("<=", sx("+", r, sx("slen", args[1].S)), sx("slen", args[0].S))))
		return Val{K: KInt, S: r, T: types.Typ[types.Int]}
	}
	pureExterns["strings.Index"] = true
	for _, name := range []string{"strings.LastIndexAny", "strings.IndexAny", "strings.LastIndex", "strings.LastIndexByte"} {
		externs[name] = func(c *FnCtx, st *State, call *ast.CallExpr, recv *Val, args []Val) Val {
			r := c.fresh("idx", "Int")
			c.assume(st, sAnd(sx("<=", "-1", r), sx("<", r, sx("slen", args[0].S))))
			return Val{K: KInt, S: r, T: types.Typ[types.Int]}
		}
		pureExterns[name] = true
	}
}
