package main

// Calls: builtins, conversions, contracts, inlining, function values.

import (
	"fmt"
	"go/ast"
	"go/token"
	"go/types"
	"regexp"
	"sort"
	"strconv"
	"strings"
)

func (c *FnCtx) evalArgs(st *State, call *ast.CallExpr, sig *types.Signature) []Val {
	var args []Val
	np := sig.Params().Len()
	if len(call.Args) == 1 && np > 1 {
		// f(g()) with multi-value g
		tv := c.evalExpr(st, call.Args[0])
		return tv.F
	}
	for i, a := range call.Args {
		if sig.Variadic() && i >= np-1 && !call.Ellipsis.IsValid() {
			break
		}
		v := c.evalExpr(st, a)
		var pt types.Type
		if i < np {
			pt = sig.Params().At(i).Type()
		}
		if pt != nil {
			v = c.convertTo(st, v, c.typeOf(a), pt)
		}
		args = append(args, v)
	}
	if sig.Variadic() && !call.Ellipsis.IsValid() {
		vt := sig.Params().At(np - 1).Type().(*types.Slice)
		extra := call.Args[np-1:]
		if len(call.Args) < np-1 {
			extra = nil
		}
		if len(extra) == 0 {
			args = append(args, c.w.zero(vt))
		} else {
			n := sInt(int64(len(extra)))
			sl := c.makeSlice(st, vt.Elem(), vt, n, n, false)
			for i, a := range extra {
				v := c.evalExpr(st, a)
				v = c.convertTo(st, v, c.typeOf(a), vt.Elem())
				c.writeElem(st, vt.Elem(), sl.ref(), sInt(int64(i)), v)
			}
			args = append(args, sl)
		}
	}
	return args
}

func (c *FnCtx) evalCall(st *State, call *ast.CallExpr) Val {
	// conversion
	if tv, ok := c.info.Types[call.Fun]; ok && tv.IsType() {
		v := c.evalExpr(st, call.Args[0])
		return c.convertTo(st, v, c.typeOf(call.Args[0]), tv.Type)
	}
	// builtin
	if id, ok := unparen(call.Fun).(*ast.Ident); ok {
		if b, ok := c.info.ObjectOf(id).(*types.Builtin); ok {
			return c.evalBuiltin(st, call, b.Name())
		}
	}
	resT := c.typeOf(call)
	// immediately-invoked function literal
	if lit, ok := unparen(call.Fun).(*ast.FuncLit); ok {
		sig := c.typeOf(lit).(*types.Signature)
		args := c.evalArgs(st, call, sig)
		return c.inlineBody(st, "funclit", sig, lit.Body, nil, nil, args, c.info, c.pkg, true)
	}
	// static callee?
	var fn *types.Func
	var recvExpr ast.Expr
	switch f := unparen(call.Fun).(type) {
	case *ast.Ident:
		fn, _ = c.info.ObjectOf(f).(*types.Func)
	case *ast.SelectorExpr:
		if sel, ok := c.info.Selections[f]; ok {
			if sel.Kind() == types.MethodVal {
				fn, _ = sel.Obj().(*types.Func)
				recvExpr = f.X
			}
		} else {
			fn, _ = c.info.ObjectOf(f.Sel).(*types.Func)
		}
	}
	if fn == nil {
		// call of a function value
		fv := c.evalExpr(st, call.Fun)
		sig, _ := c.typeOf(call.Fun).Underlying().(*types.Signature)
		if sig == nil {
			c.unsupport("call of non-function", call.Pos())
			return c.freshVal(resT, "res")
		}
		args := c.evalArgs(st, call, sig)
		// a package-level function variable (a parser built from combinators) with an assumed contract
		var fid *ast.Ident
		switch f := unparen(call.Fun).(type) {
		case *ast.Ident:
			fid = f
		case *ast.SelectorExpr:
			// pkg.Var(...) from another package
			if _, isSel := c.info.Selections[f]; !isSel {
				fid = f.Sel
			}
		}
		if id := fid; id != nil {
			if v, ok := c.info.ObjectOf(id).(*types.Var); ok && v.Pkg() != nil && v.Parent() == v.Pkg().Scope() {
				if fs, ok := c.eng.contracts.Funcs[v.Pkg().Name()+"."+v.Name()]; ok {
					return c.callByContract(st, fs, sig, nil, args, call.Pos(), v.Pkg().Name()+"."+v.Name())
				}
			}
		}
		if fv.Lit != nil {
			// a literal that is itself under contract is called through its contract
			if key, ok := c.eng.litKeys[fv.Lit.lit]; ok {
				if fs, ok := c.eng.contracts.Funcs[key]; ok {
					return c.callLitByContract(st, fs, sig, fv.Lit, args, call.Pos(), key)
				}
			}
		}
		if fv.Lit != nil && c.inlineDepth < 6 {
			return c.inlineBody(st, "closure", sig, fv.Lit.lit.Body, nil, nil, args, fv.Lit.info, c.pkg, true)
		}
		return c.applyFn(st, fv, sig, args)
	}
	sig := fn.Type().(*types.Signature)
	var recv *Val
	var recvT types.Type
	if recvExpr != nil {
		var rv Val
		recvT = c.typeOf(recvExpr)
		boxedRecv := false
		if id, ok := unparen(recvExpr).(*ast.Ident); ok {
			if o := c.info.ObjectOf(id); o != nil && c.boxed[o] {
				if _, wantPtr := sig.Recv().Type().Underlying().(*types.Pointer); wantPtr {
					if pv, ok := st.env[o]; ok && pv.K == KPtr {
						rv = pv
						recvT = types.NewPointer(recvT)
						boxedRecv = true
					}
				}
			}
		}
		if !boxedRecv {
			rv = c.evalExpr(st, recvExpr)
		}
		sel := c.info.Selections[unparen(call.Fun).(*ast.SelectorExpr)]
		// follow embedded-field path and implicit address/deref to reach the method's receiver
		if !boxedRecv {
			rv, recvT = c.adjustRecv(st, rv, recvT, sel, sig)
		}
		recv = &rv
	}
	args := c.evalArgs(st, call, sig)
	return c.callFunc(st, fn, sig, recv, recvT, args, call)
}

func unparen(e ast.Expr) ast.Expr {
	for {
		p, ok := e.(*ast.ParenExpr)
		if !ok {
			return e
		}
		e = p.X
	}
}

func (c *FnCtx) adjustRecv(st *State, rv Val, rt types.Type, sel *types.Selection, sig *types.Signature) (Val, types.Type) {
	idx := sel.Index()
	t := rt
	for _, i := range idx[:len(idx)-1] {
		if p, ok := t.Underlying().(*types.Pointer); ok {
			rv = c.readPtr(st, p.Elem(), rv.S)
			t = p.Elem()
		}
		s, ok := t.Underlying().(*types.Struct)
		if !ok || rv.K != KStruct {
			break
		}
		rv = rv.F[i]
		t = s.Field(i).Type()
	}
	if sig.Recv() != nil {
		want := sig.Recv().Type()
		_, wantPtr := want.Underlying().(*types.Pointer)
		_, havePtr := t.Underlying().(*types.Pointer)
		if isIfaceType(t) {
			return rv, t
		}
		if !wantPtr && havePtr {
			p := t.Underlying().(*types.Pointer)
			c.oblige(st, "nil", sNot(sx("=", rv.S, "0")), "nil receiver", token.NoPos)
			rv = c.readPtr(st, p.Elem(), rv.S)
			t = p.Elem()
		} else if wantPtr && !havePtr {
			// &x implicit: only supported for calls that we inline or havoc; mark
			c.unmodelled["implicit address-of receiver"] = true
		}
	}
	return rv, t
}

// applyFn models a call of an unknown function value as an uninterpreted pure function.
func (c *FnCtx) applyFn(st *State, fv Val, sig *types.Signature, args []Val) Val {
	c.trusted["function values (filters, parsers passed as arguments) are modelled as total functions of their arguments that write only through their pointer arguments"] = true
	impure := false
	for _, a := range args {
		if a.K == KPtr && a.Elem != nil {
			impure = true
			if _, isStruct := a.Elem.Underlying().(*types.Struct); isStruct {
				c.havocPtrStruct(st, a.Elem)
			}
		}
	}
	if impure {
		// a function working through pointers (a parser): each call may answer differently
		res := sig.Results()
		switch res.Len() {
		case 0:
			return Val{K: KUnit}
		case 1:
			v := c.freshVal(res.At(0).Type(), "fnres")
			for _, f := range c.typeFacts(v) {
				c.assume(st, f)
			}
			return v
		}
		v := Val{K: KTuple}
		for i := 0; i < res.Len(); i++ {
			x := c.freshVal(res.At(i).Type(), "fnres")
			for _, f := range c.typeFacts(x) {
				c.assume(st, f)
			}
			v.F = append(v.F, x)
		}
		return v
	}
	var argTerms, argSorts []string
	argTerms = append(argTerms, fv.S)
	argSorts = append(argSorts, "Fn")
	for _, a := range args {
		for _, s := range a.flat() {
			argTerms = append(argTerms, s.S)
			argSorts = append(argSorts, s.Sort)
		}
	}
	res := sig.Results()
	if res.Len() == 0 {
		return Val{K: KUnit}
	}
	j := 0
	mk := func(t types.Type) Val {
		return c.w.proto(t, "", func(path, sort string) string {
			name := fmt.Sprintf("apply_%s_%d", smtName(strings.Join(argSorts, "")+"_"+typeKey(res)), j)
			j++
			c.declare(name, argSorts, sort)
			return sx(name, argTerms...)
		})
	}
	if res.Len() == 1 {
		v := mk(res.At(0).Type())
		for _, f := range c.typeFacts(v) {
			c.fact(f)
		}
		return v
	}
	v := Val{K: KTuple}
	for i := 0; i < res.Len(); i++ {
		v.F = append(v.F, mk(res.At(i).Type()))
	}
	return v
}

func (c *FnCtx) funcKey(fn *types.Func) string {
	sig := fn.Type().(*types.Signature)
	pk := ""
	if fn.Pkg() != nil {
		pk = fn.Pkg().Name()
	}
	if sig.Recv() != nil {
		rt := sig.Recv().Type()
		if p, ok := rt.(*types.Pointer); ok {
			rt = p.Elem()
		}
		if n, ok := rt.(*types.Named); ok {
			return pk + "." + n.Obj().Name() + "." + fn.Name()
		}
	}
	return pk + "." + fn.Name()
}

func (c *FnCtx) callFunc(st *State, fn *types.Func, sig *types.Signature, recv *Val, recvT types.Type, args []Val, call *ast.CallExpr) Val {
	key := c.funcKey(fn)
	var resT types.Type = sig.Results()
	if sig.Results().Len() == 1 {
		resT = sig.Results().At(0).Type()
	}
	// call-site obligations attached by the contract of the function being verified
	if c.spec != nil && c.inlineDepth == 0 {
		for _, cp := range c.spec.CallPre {
			if cp.Label != fn.Name() {
				continue
			}
			// an argument that is the merged result of an inlined helper: one obligation per
			// return path of the helper
			split := -1
			for i := range args {
				if len(args[i].Cases) > 0 {
					split = i
					break
				}
			}
			if split >= 0 {
				for _, cs := range args[split].Cases {
					tmp := st.clone()
					tmp.pc = cs.cond
					sc := c.specScopeAt(tmp)
					names := cp.Props
					if len(names) > 0 && names[0] == "self" {
						if recv != nil {
							sc.vars["self"] = *recv
						}
						names = names[1:]
					}
					for i, an := range names {
						if an != "" && i < len(args) {
							if i == split {
								sc.vars[an] = cs.v
							} else {
								sc.vars[an] = args[i]
							}
						}
					}
					oname := ""
					if split == 0 {
						for lit, sym := range c.strLits {
							if sym == cs.v.S {
								oname = "callpre:" + fn.Name() + "(" + strconv.Quote(lit) + ")"
								for _, o := range c.obls {
									if o.Name == c.fname+"/"+oname {
										oname = ""
									}
								}
							}
						}
					}
					c.obligeNamed(tmp, "callpre", oname, sc.boolOf(cp.Expr), "at the call of "+fn.Name()+": "+cp.Src, call.Pos())
				}
				continue
			}
			sc := c.specScopeAt(st)
			names := cp.Props
			if len(names) > 0 && names[0] == "self" {
				// `callpre M(self, a, b): e`: self names the receiver of the call
				if recv != nil {
					sc.vars["self"] = *recv
				}
				names = names[1:]
			}
			for i, an := range names {
				if an != "" && i < len(args) {
					sc.vars[an] = args[i]
				}
			}
			oname := ""
			if len(call.Args) > 0 {
				if bl, ok := call.Args[0].(*ast.BasicLit); ok {
					// stable name: the literal argument identifies the call site
					oname = "callpre:" + fn.Name() + "(" + bl.Value + ")"
					for _, o := range c.obls {
						if o.Name == c.fname+"/"+oname {
							oname = ""
						}
					}
				}
			}
			c.obligeNamed(st, "callpre", oname, sc.boolOf(cp.Expr), "at the call of "+fn.Name()+": "+cp.Src, call.Pos())
		}
	}
	if fs, ok := c.eng.contracts.Funcs[key]; ok && !(c.inlineDepth == 0 && false) {
		return c.callByContract(st, fs, sig, recv, args, call.Pos(), key)
	}
	if h, ok := externs[fn.FullName()]; ok {
		c.trusted["external contract: "+fn.FullName()] = true
		return h(c, st, call, recv, args)
	}
	if recv != nil && recvT != nil && isIfaceType(recvT) && recv.K == KIfc && c.dispatchDepth < 2 {
		if v, ok := c.dispatchCall(st, fn, sig, recv, recvT, args, call); ok {
			return v
		}
	}
	recvMismatch := false
	if sig.Recv() != nil && recv != nil {
		if _, wantPtr := sig.Recv().Type().Underlying().(*types.Pointer); wantPtr && recv.K != KPtr {
			// pointer-receiver method on an addressable expression that is not modelled as a
			// pointer (a field of a struct behind a pointer): not inlined
			recvMismatch = true
			c.unmodelled["method with pointer receiver called on an addressable field: "+key+" (result and effects unconstrained)"] = true
		}
	}
	if d, ok := c.eng.decls[fn]; ok && d.decl.Body != nil && !recvMismatch {
		rec := false
		for _, s := range c.inlineStack {
			if s == key {
				rec = true
			}
		}
		if !rec && c.inlineDepth < 6 {
			return c.inlineBody(st, key, sig, d.decl.Body, d.decl, recv, args, d.pkg.TypesInfo, d.pkg, false)
		}
		if rec {
			c.unmodelled["recursive call without contract: "+key] = true
		}
	}
	c.unmodelled["call "+fn.FullName()] = true
	if sig.Results().Len() == 0 {
		return Val{K: KUnit}
	}
	v := c.freshVal(resT, "res_"+fn.Name())
	for _, f := range c.typeFacts(v) {
		c.assume(st, f)
	}
	c.bumpAlloc(st)
	c.refsBelow(st, v, st.alloc)
	return v
}

func (c *FnCtx) bumpAlloc(st *State) {
	na := c.fresh("alloc", "Int")
	c.assume(st, sx(">=", na, st.alloc))
	st.alloc = na
}

// inlineBody symbolically executes a callee body in place.
func (c *FnCtx) inlineBody(st *State, key string, sig *types.Signature, body *ast.BlockStmt, decl *ast.FuncDecl, recv *Val, args []Val, info *types.Info, pkg interface{}, closure bool) Val {
	savedInfo, savedPkg := c.info, c.pkg
	c.info = info
	if p, ok := pkg.(*pkgT); ok && p != nil {
		c.pkg = p
	}
	savedLoop, savedLit := c.loopOrd, c.litOrd
	c.inlineDepth++
	c.inlineStack = append(c.inlineStack, key)
	c.sigStack = append(c.sigStack, sig)
	var rets []retExit
	c.retStack = append(c.retStack, &rets)
	savedBreaks, savedConts := c.breaks, c.conts
	c.breaks, c.conts = nil, nil

	callerEnv := st.env
	st.env = make(map[types.Object]Val, len(callerEnv)+8)
	for k, v := range callerEnv {
		st.env[k] = v
	}
	if recv != nil && sig.Recv() != nil {
		rv := *recv
		st.env[sig.Recv()] = rv
	}
	for i := 0; i < sig.Params().Len() && i < len(args); i++ {
		a := args[i]
		if a.T == nil {
			a.T = sig.Params().At(i).Type()
		}
		st.env[sig.Params().At(i)] = a
	}
	for i := 0; i < sig.Results().Len(); i++ {
		r := sig.Results().At(i)
		if r.Name() != "" {
			st.env[r] = c.w.zero(r.Type())
		}
	}
	c.findBoxed(body, info)
	end := c.execBlock(st, body.List)
	var outs []*State
	if end != nil {
		// fell off the end (no results)
		outs = append(outs, end)
	}
	nres := sig.Results().Len()
	for _, r := range rets {
		for i := 0; i < nres && i < len(r.vals); i++ {
			r.st.env[sig.Results().At(i)] = r.vals[i]
		}
		outs = append(outs, r.st)
	}
	c.retStack = c.retStack[:len(c.retStack)-1]
	c.sigStack = c.sigStack[:len(c.sigStack)-1]
	c.inlineStack = c.inlineStack[:len(c.inlineStack)-1]
	c.inlineDepth--
	c.info, c.pkg = savedInfo, savedPkg
	c.breaks, c.conts = savedBreaks, savedConts
	if c.inlineDepth == 0 || true {
		c.loopOrd, c.litOrd = savedLoop, savedLit
	}
	m := c.merge(outs)
	if m == nil {
		// callee never returns (always panics)
		st.pc = "false"
		return c.freshVal(resultType(sig), "noreturn")
	}
	// write merged state back into st
	var res Val
	switch nres {
	case 0:
		res = Val{K: KUnit}
	case 1:
		res = m.env[sig.Results().At(0)]
		if len(rets) > 1 && len(rets) <= 64 && end == nil && res.K == KStr {
			for _, r := range rets {
				if len(r.vals) == 1 && r.st.pc != "false" {
					res.Cases = append(res.Cases, valCase{r.st.pc, r.vals[0]})
				}
			}
		}
	default:
		res = Val{K: KTuple}
		for i := 0; i < nres; i++ {
			res.F = append(res.F, m.env[sig.Results().At(i)])
		}
	}
	st.pc, st.heaps, st.alloc = m.pc, m.heaps, m.alloc
	if closure {
		// captured variables may have been assigned
		st.env = m.env
	} else {
		st.env = callerEnv
	}
	return res
}

func resultType(sig *types.Signature) types.Type {
	if sig.Results().Len() == 1 {
		return sig.Results().At(0).Type()
	}
	return sig.Results()
}

// callByContract: assert the precondition, havoc what the callee may change, assume the postcondition.
func (c *FnCtx) callByContract(st *State, fs *FuncSpec, sig *types.Signature, recv *Val, args []Val, pos token.Pos, key string) Val {
	if fs.Trusted {
		c.trusted["contract of "+key+" is assumed, not proved: "+fs.TrustWhy] = true
	} else {
		c.deps[key] = true
	}
	vars := map[string]Val{}
	for k, v := range c.capturedBinding {
		vars[k] = v
	}
	if recv != nil && fs.Recv != "" {
		vars[fs.Recv] = *recv
	}
	for i, n := range fs.Params {
		if i < len(args) {
			a := args[i]
			if a.T == nil && i < sig.Params().Len() {
				a.T = sig.Params().At(i).Type()
			}
			vars[n] = a
		}
	}
	pre := &SpecScope{c: c, cur: st, old: nil, vars: vars}
	ghostIn := map[string]string{}
	for _, g := range fs.GhostFns {
		if !g.In {
			continue
		}
		bound := false
		if c.spec != nil {
			for _, cg := range c.spec.GhostFns {
				if cg.Name == g.Name {
					ghostIn[g.Name] = c.heapSym(st, "G_"+g.Name, "Int", 1)
					bound = true
				}
			}
		}
		if !bound {
			c.nfresh++
			sym := fmt.Sprintf("G_%s_%s_%d", smtName(fs.keyTail()), g.Name, c.nfresh)
			c.declare(sym, []string{"Int"}, "Int")
			ghostIn[g.Name] = sym
		}
	}
	if len(ghostIn) > 0 {
		pre.ghostOverride = ghostIn
	}
	for i, r := range fs.Requires {
		t := pre.boolOf(r.Expr)
		c.obligeNamed(st, "pre", "", t, fmt.Sprintf("precondition #%d of %s: %s", i+1, key, r.Src), pos)
	}
	if key == c.fname && c.inlineDepth == 0 {
		if fs.Decreases != nil && c.entry != nil {
			cur := &SpecScope{c: c, cur: c.entry, vars: map[string]Val{}}
			for k, v := range c.paramVals {
				cur.vars[k] = v
			}
			m0 := cur.intOf(fs.Decreases.Expr)
			m1 := pre.intOf(fs.Decreases.Expr)
			c.obligeNamed(st, "decreases", "", sAnd(sx("<", m1, m0), sx("<=", "0", m0)), "recursive call decreases "+fs.Decreases.Src, pos)
		} else {
			c.unmodelled["recursive call without decreases clause (termination not proved)"] = true
		}
	}
	old := st.clone()
	// results
	nres := sig.Results().Len()
	var results []Val
	for i := 0; i < nres; i++ {
		v := c.freshVal(sig.Results().At(i).Type(), "r_"+fs.keyTail())
		for _, f := range c.typeFacts(v) {
			c.assume(st, f)
		}
		results = append(results, v)
	}
	// heaps the callee may write to.  A callee that assigns nothing needs no new heap version:
	// memory it allocates lies at references >= the current allocation counter, where the
	// current heaps are still unconstrained, and its postcondition describes it there.
	var except []Val
	var wholeHeaps []string
	if fs.Assigns != "" && fs.Assigns != "nothing" {
		for _, item := range splitTop(fs.Assigns, ',') {
			if m := heapItemRe.FindStringSubmatch(strings.TrimSpace(item)); m != nil {
				if t := pre.lookupType(m[1]); t != nil {
					wholeHeaps = append(wholeHeaps, c.elemKey(t))
				}
				continue
			}
			ex, err := parseSpecExpr(item)
			if err != nil {
				c.unsupported = append(c.unsupported, "bad assigns clause of "+key)
				continue
			}
			except = append(except, pre.evalTarget(ex))
		}
	}
	keys := map[string]string{}
	seen := map[string]bool{}
	switch {
	case fs.Assigns == "nothing":
	case fs.Assigns != "":
		for _, e := range except {
			switch e.K {
			case KPtr:
				if e.Elem != nil {
					c.heapKeysOf(types.NewPointer(e.Elem), seen, keys)
					// only the pointer's own fields
					for k := range keys {
						if !strings.HasPrefix(k, "P_"+c.elemKey(e.Elem)) {
							delete(keys, k)
						}
					}
				}
			case KSlice:
				if e.Elem != nil {
					ek := c.elemKey(e.Elem)
					c.w.proto(e.Elem, "", func(path, sort string) string {
						keys[ek+path] = sort
						heapSorts[ek+path] = sort
						return ""
					})
				}
			}
		}
	default:
		for i := 0; i < nres; i++ {
			c.heapKeysOf(sig.Results().At(i).Type(), seen, keys)
		}
		for i := 0; i < sig.Params().Len(); i++ {
			c.heapKeysOf(sig.Params().At(i).Type(), seen, keys)
		}
		if sig.Recv() != nil {
			c.heapKeysOf(sig.Recv().Type(), seen, keys)
		}
	}
	for _, wk := range wholeHeaps {
		// the callee may write anywhere in the heap of this element type
		for k := range st.heaps {
			if strings.HasPrefix(k, wk) {
				keys[k] = "whole"
			}
		}
		for k, srt := range heapSorts {
			if strings.HasPrefix(k, wk) && !strings.HasPrefix(k, "P_") && !strings.HasPrefix(k, "G_") {
				if _, ok := keys[k]; !ok {
					_ = srt
					keys[k] = "whole"
				}
			}
		}
	}
	ks := make([]string, 0, len(keys))
	for k := range keys {
		ks = append(ks, k)
	}
	sort.Strings(ks)
	for _, k := range ks {
		c.callHeapKeys[k] = true
		oldSym, newSym := c.havocHeap(st, k)
		if keys[k] == "whole" {
			continue
		}
		if fs.Assigns != "" {
			exc := "true"
			if strings.HasPrefix(k, "P_") {
				for _, e := range except {
					if e.K == KPtr && e.Elem != nil && strings.HasPrefix(k, "P_"+c.elemKey(e.Elem)) {
						exc = sAnd(exc, sNot(sx("=", "r", e.S)))
					}
				}
				c.assume(st, fmt.Sprintf("(forall ((r Int)) (! (=> (and (< r %s) %s) (= (%s r) (%s r))) :pattern ((%s r))))", old.alloc, exc, newSym, oldSym, newSym))
			} else {
				for _, e := range except {
					if e.K == KSlice && c.elemKeyMatches(e, k) {
						exc = sAnd(exc, sNot(sAnd(sx("=", "r", e.ref()), sx("<=", e.off(), "i"), sx("<", "i", sx("+", e.off(), e.ln())))))
					}
				}
				c.assume(st, fmt.Sprintf("(forall ((r Int) (i Int)) (! (=> (and (< r %s) %s) (= (%s r i) (%s r i))) :pattern ((%s r i))))", old.alloc, exc, newSym, oldSym, newSym))
			}
		}
	}
	c.bumpAlloc(st)
	for _, r := range results {
		c.refsBelow(st, r, st.alloc)
	}
	post := &SpecScope{c: c, cur: st, old: old, vars: map[string]Val{}, oldVars: vars}
	for k, v := range vars {
		post.vars[k] = v
	}
	for i, n := range fs.Results {
		if i < len(results) {
			post.vars[n] = results[i]
		}
	}
	if len(fs.GhostFns) > 0 {
		post.ghostOverride = map[string]string{}
		for _, g := range fs.GhostFns {
			if g.In {
				post.ghostOverride[g.Name] = ghostIn[g.Name]
				continue
			}
			c.nfresh++
			sym := fmt.Sprintf("G_%s_%s_%d", smtName(fs.keyTail()), g.Name, c.nfresh)
			c.declare(sym, []string{"Int"}, "Int")
			post.ghostOverride[g.Name] = sym
			c.ghostFns[fs.keyTail()+"_"+g.Name] = sym
		}
	}
	for _, d := range fs.Defines {
		c.assume(st, post.boolOf(d.Expr))
	}
	for _, e := range fs.Ensures {
		if e.Local {
			continue
		}
		c.assume(st, post.boolOf(e.Expr))
	}
	// case contracts of the same function: requires ==> ensures
	if !strings.Contains(key, "@") {
		var cases []string
		for k := range c.eng.contracts.Funcs {
			if strings.HasPrefix(k, key+"@") {
				cases = append(cases, k)
			}
		}
		sort.Strings(cases)
		for _, k := range cases {
			cs := c.eng.contracts.Funcs[k]
			if cs.Trusted {
				c.trusted["contract of "+k+" is assumed, not proved: "+cs.TrustWhy] = true
			} else {
				c.deps[k] = true
			}
			cv := map[string]Val{}
			if recv != nil && cs.Recv != "" {
				cv[cs.Recv] = *recv
			}
			for i, n := range cs.Params {
				if i < len(args) {
					cv[n] = args[i]
				}
			}
			needsIn := false
			for _, g := range cs.GhostFns {
				if g.In {
					needsIn = true
				}
			}
			if needsIn {
				// a case contract parameterised by a caller-supplied ghost function is not used at
				// call sites (no such function is supplied here); it is verified on its own
				continue
			}
			cpre := &SpecScope{c: c, cur: old, vars: cv}
			cond := "true"
			for _, r := range cs.Requires {
				cond = sAnd(cond, cpre.boolOf(r.Expr))
			}
			cpost := &SpecScope{c: c, cur: st, old: old, vars: map[string]Val{}, oldVars: cv}
			for k2, v := range cv {
				cpost.vars[k2] = v
			}
			for i, n := range cs.Results {
				if i < len(results) {
					cpost.vars[n] = results[i]
				}
			}
			if len(cs.GhostFns) > 0 {
				// ghost witnesses of the case contract: fresh function symbols (the callee proves they exist)
				cpost.ghostOverride = map[string]string{}
				for _, g := range cs.GhostFns {
					if g.In {
						continue
					}
					c.nfresh++
					sym := fmt.Sprintf("G_%s_%s_%d", smtName(cs.keyTail()), g.Name, c.nfresh)
					c.declare(sym, []string{"Int"}, "Int")
					cpost.ghostOverride[g.Name] = sym
				}
			}
			concl := "true"
			for _, e := range cs.Ensures {
				if !e.Local {
					concl = sAnd(concl, cpost.boolOf(e.Expr))
				}
			}
			c.assume(st, sImp(cond, concl))
		}
	}
	// interface method: what each known implementation guarantees for its own dynamic type
	if recv != nil && recv.K == KIfc && sig.Recv() != nil && isIfaceType(sig.Recv().Type()) {
		c.assumeImplementerFacts(st, old, key, sig, recv, args, results)
	}
	switch nres {
	case 0:
		return Val{K: KUnit}
	case 1:
		return results[0]
	}
	return Val{K: KTuple, F: results}
}

// assumeImplementerFacts: for an interface call resolved by the interface's contract, also
// assume "dynamic type is T and T's precondition holds ==> T's postcondition" for every
// implementation T whose method is under contract (including its case contracts).
func (c *FnCtx) assumeImplementerFacts(st, old *State, ikey string, sig *types.Signature, recv *Val, args []Val, results []Val) {
	it, ok := sig.Recv().Type().Underlying().(*types.Interface)
	if !ok {
		return
	}
	mname := ikey[strings.LastIndex(ikey, ".")+1:]
	for _, n := range c.w.named {
		var t types.Type = n
		if !types.Implements(t, it) {
			continue
		}
		// only implementations the function being verified can name (its own package or a direct
		// import): the facts are an optional strengthening, and contracts added in a dependent
		// package must not change the obligations of the packages below it
		if np := n.Obj().Pkg(); np != nil && c.pkg != nil && np != c.pkg.Types {
			vis := false
			for _, imp := range c.pkg.Types.Imports() {
				if imp == np {
					vis = true
				}
			}
			if !vis {
				continue
			}
		}
		base := n.Obj().Pkg().Name() + "." + n.Obj().Name() + "." + mname
		var keys []string
		for k := range c.eng.contracts.Funcs {
			if k == base || strings.HasPrefix(k, base+"@") {
				keys = append(keys, k)
			}
		}
		sort.Strings(keys)
		if len(keys) == 0 {
			continue
		}
		cond0 := c.tagTest(recv.S, t)
		pv := c.payload(recv.S, t)
		pv.T = t
		for _, k := range keys {
			cs := c.eng.contracts.Funcs[k]
			if cs.Trusted {
				if len(cs.Ensures) <= 1 {
					continue
				}
				c.trusted["contract of "+k+" is assumed, not proved: "+cs.TrustWhy] = true
			} else {
				c.deps[k] = true
			}
			cv := map[string]Val{}
			if cs.Recv != "" {
				cv[cs.Recv] = pv
			}
			for i, pn := range cs.Params {
				if i < len(args) {
					cv[pn] = args[i]
				}
			}
			cpre := &SpecScope{c: c, cur: old, vars: cv}
			cond := cond0
			for _, f := range c.typeFacts(pv) {
				c.assume(st, sImp(cond0, f)) // invariants of the Go type of the payload
			}
			for _, r := range cs.Requires {
				cond = sAnd(cond, cpre.boolOf(r.Expr))
			}
			cpost := &SpecScope{c: c, cur: st, old: old, vars: map[string]Val{}, oldVars: cv}
			for k2, v := range cv {
				cpost.vars[k2] = v
			}
			for i, rn := range cs.Results {
				if i < len(results) {
					cpost.vars[rn] = results[i]
				}
			}
			if len(cs.GhostFns) > 0 {
				continue // ghost results are not transported through interface calls
			}
			concl := "true"
			for _, e := range cs.Ensures {
				if !e.Local {
					concl = sAnd(concl, cpost.boolOf(e.Expr))
				}
			}
			c.assume(st, sImp(cond, concl))
		}
	}
}

func (fs *FuncSpec) keyTail() string {
	if i := strings.LastIndex(fs.Key, "."); i >= 0 {
		return fs.Key[i+1:]
	}
	return fs.Key
}

// frameFormula: every location allocated before bound reads the same in cur as in old,
// except inside the listed slices.
func (c *FnCtx) frameFormula(old, cur *State, bound string, except []Val) string {
	keys := map[string]bool{}
	for k := range cur.heaps {
		keys[k] = true
	}
	var ks []string
	for k := range keys {
		ks = append(ks, k)
	}
	sort.Strings(ks)
	var parts []string
	for _, k := range ks {
		if strings.HasPrefix(k, "G_") {
			continue
		}
		skip := false
		for _, wk := range c.frameWhole {
			if strings.HasPrefix(k, wk) {
				skip = true
			}
		}
		if skip {
			continue
		}
		srt := c.heapSort(k)
		one := strings.HasPrefix(k, "P_")
		nargs := 2
		if one {
			nargs = 1
		}
		a := c.heapSym(old, k, srt, nargs)
		b := cur.heaps[k]
		if a == b {
			continue
		}
		if one {
			exc := "true"
			for _, e := range except {
				if e.K == KPtr && e.Elem != nil && strings.HasPrefix(k, "P_"+c.elemKey(e.Elem)) {
					exc = sAnd(exc, sNot(sx("=", "r", e.S)))
				}
			}
			parts = append(parts, fmt.Sprintf("(forall ((r Int)) (=> (and (< 0 r) (< r %s) %s) (= (%s r) (%s r))))", bound, exc, b, a))
			continue
		}
		exc := "true"
		for _, e := range except {
			if e.K == KSlice && c.elemKeyMatches(e, k) {
				exc = sAnd(exc, sNot(sAnd(sx("=", "r", e.ref()), sx("<=", e.off(), "i"), sx("<", "i", sx("+", e.off(), e.ln())))))
			}
		}
		parts = append(parts, fmt.Sprintf("(forall ((r Int) (i Int)) (=> (and (< 0 r) (< r %s) (<= 0 i) (< i (asize r)) %s) (= (%s r i) (%s r i))))", bound, exc, b, a))
	}
	return sAnd(parts...)
}

func (c *FnCtx) elemKeyMatches(e Val, key string) bool {
	if e.Elem == nil {
		return true
	}
	return strings.HasPrefix(key, c.elemKey(e.Elem))
}

// ---------------------------------------------------------------------------
// builtins

func (c *FnCtx) evalBuiltin(st *State, call *ast.CallExpr, name string) Val {
	switch name {
	case "len", "cap":
		v := c.evalExpr(st, call.Args[0])
		switch v.K {
		case KSlice:
			if name == "len" {
				return Val{K: KInt, S: v.ln(), T: types.Typ[types.Int]}
			}
			return Val{K: KInt, S: v.cp(), T: types.Typ[types.Int]}
		case KStr:
			return Val{K: KInt, S: sx("slen", v.S), T: types.Typ[types.Int]}
		case KArray:
			return vConstInt(int64(len(v.F)))
		case KMap:
			n := c.fresh("maplen", "Int")
			c.fact(sx(">=", n, "0"))
			return vInt(n)
		case KPtr:
			if a, ok := v.Elem.Underlying().(*types.Array); ok {
				return vConstInt(a.Len())
			}
		}
		c.unsupport("len of "+nodeStr(call.Args[0]), call.Pos())
		return vInt("0")
	case "min", "max":
		v := c.evalExpr(st, call.Args[0])
		op := "imin"
		if name == "max" {
			op = "imax"
		}
		for _, a := range call.Args[1:] {
			v = vInt(sx(op, v.S, c.evalExpr(st, a).S))
		}
		return v
	case "panic":
		c.evalExpr(st, call.Args[0])
		c.obligePanic(st, call.Pos(), "explicit panic: "+nodeStr(call))
		return Val{K: KUnit}
	case "make":
		t := c.typeOf(call.Args[0])
		switch u := t.Underlying().(type) {
		case *types.Slice:
			ln := c.evalExpr(st, call.Args[1]).S
			cp := ln
			c.oblige(st, "make", sx("<=", "0", ln), "make: non-negative length: "+nodeStr(call), call.Pos())
			if len(call.Args) > 2 {
				cp = c.evalExpr(st, call.Args[2]).S
				c.oblige(st, "make", sx("<=", ln, cp), "make: len <= cap: "+nodeStr(call), call.Pos())
			}
			ln = c.define("mklen", "Int", ln)
			return c.makeSlice(st, u.Elem(), t, ln, c.define("mkcap", "Int", cp), true)
		case *types.Map, *types.Chan:
			for _, a := range call.Args[1:] {
				c.evalExpr(st, a)
			}
			v := c.freshVal(t, "mk")
			c.declare("nilMap", nil, "MapV")
			c.assume(st, sNot(sx("=", v.S, "nilMap")))
			return v
		}
	case "new":
		t := c.typeOf(call.Args[0])
		addr := c.allocRef(st)
		c.writePtr(st, t, addr, c.w.zero(t))
		return Val{K: KPtr, S: addr, T: types.NewPointer(t), Elem: t}
	case "append":
		return c.evalAppend(st, call)
	case "copy":
		dst := c.evalExpr(st, call.Args[0])
		src := c.evalExpr(st, call.Args[1])
		if dst.K != KSlice {
			c.unsupport("copy destination", call.Pos())
			return vInt("0")
		}
		var srcLen string
		if src.K == KStr {
			srcLen = sx("slen", src.S)
		} else {
			srcLen = src.ln()
		}
		n := c.define("ncopy", "Int", sx("imin", dst.ln(), srcLen))
		if src.K == KStr {
			c.copyFromStr(st, dst.ref(), dst.off(), src.S, "0", n)
		} else {
			c.copyElems(st, dst.Elem, dst.ref(), dst.off(), src.ref(), src.off(), n)
		}
		return Val{K: KInt, S: n, T: types.Typ[types.Int]}
	case "delete":
		c.unmodelled["map delete"] = true
		return Val{K: KUnit}
	case "print", "println":
		return Val{K: KUnit}
	}
	c.unsupport("builtin "+name, call.Pos())
	return c.freshVal(c.typeOf(call), "bi")
}

func (c *FnCtx) obligePanic(st *State, pos token.Pos, text string) {
	allowed := "false"
	if c.inlineDepth == 0 || true {
		if c.spec != nil && c.entry != nil {
			for _, p := range c.spec.PanicsIf {
				sc := c.specScopeAt(c.entry)
				for k, v := range c.paramVals {
					sc.vars[k] = v
				}
				allowed = sOr(allowed, sc.boolOf(p.Expr))
			}
		}
	}
	c.oblige(st, "panic", allowed, text, pos)
	// after a panic the path ends
	st.pc = "false"
}

func (c *FnCtx) evalAppend(st *State, call *ast.CallExpr) Val {
	s := c.evalExpr(st, call.Args[0])
	t := c.typeOf(call)
	sl, ok := t.Underlying().(*types.Slice)
	if !ok || s.K != KSlice {
		c.unsupport("append", call.Pos())
		return c.freshVal(t, "app")
	}
	elem := sl.Elem()
	s.Elem = elem
	var k string
	var src *Val
	var elems []Val
	srcIsStr := false
	if call.Ellipsis.IsValid() {
		v := c.evalExpr(st, call.Args[1])
		src = &v
		if v.K == KStr {
			k = sx("slen", v.S)
			srcIsStr = true
		} else {
			k = v.ln()
		}
	} else {
		for _, a := range call.Args[1:] {
			v := c.evalExpr(st, a)
			elems = append(elems, c.convertTo(st, v, c.typeOf(a), elem))
		}
		k = sInt(int64(len(elems)))
	}
	if k == "0" && src == nil {
		return s
	}
	newLen := c.define("applen", "Int", sx("+", s.ln(), k))
	inplace := c.define("inplace", "Bool", sx("<=", newLen, s.cp()))
	r2 := c.allocRef(st)
	cap2 := c.fresh("appcap", "Int")
	c.fact(sx(">=", cap2, "0"))
	c.assume(st, sAnd(sx(">=", cap2, newLen), sx("=", sx("asize", r2), cap2)))
	// copy old contents into the new array (harmless when in place: r2 is unused then)
	c.copyElems(st, elem, r2, "0", s.ref(), s.off(), s.ln())
	R := c.define("appref", "Int", sIte(inplace, s.ref(), r2))
	O := c.define("appoff", "Int", sIte(inplace, s.off(), "0"))
	C := c.define("appcapr", "Int", sIte(inplace, s.cp(), cap2))
	at := c.define("appat", "Int", sx("+", O, s.ln()))
	if src != nil {
		if srcIsStr {
			c.copyFromStr(st, R, at, src.S, "0", k)
		} else {
			c.copyElems(st, elem, R, at, src.ref(), src.off(), k)
		}
	} else {
		for j, e := range elems {
			c.writeElem(st, elem, R, sx("+", at, sInt(int64(j))), e)
		}
	}
	return mkSlice(R, O, newLen, C, elem, t)
}

// dispatchCall resolves an interface method call by cases over the known implementations.
func (c *FnCtx) dispatchCall(st *State, fn *types.Func, sig *types.Signature, recv *Val, recvT types.Type, args []Val, call *ast.CallExpr) (Val, bool) {
	it, ok := recvT.Underlying().(*types.Interface)
	if !ok {
		return Val{}, false
	}
	// only interfaces declared in the repository are resolved by cases; a standard-library
	// interface value (io.Reader, hash.Hash, ...) is external
	if fn.Pkg() == nil || !c.eng.isRepoPkg(fn.Pkg().Path()) {
		return Val{}, false
	}
	type impl struct {
		t types.Type
		m *types.Func
	}
	var impls []impl
	for _, n := range c.w.named {
		var t types.Type = n
		if !types.Implements(t, it) {
			t = types.NewPointer(n)
			if !types.Implements(t, it) {
				continue
			}
		}
		ms := types.NewMethodSet(t)
		sel := ms.Lookup(fn.Pkg(), fn.Name())
		if sel == nil {
			continue
		}
		m, ok := sel.Obj().(*types.Func)
		if !ok {
			continue
		}
		impls = append(impls, impl{t, m})
	}
	if len(impls) == 0 || len(impls) > 8 {
		return Val{}, false
	}
	c.dispatchDepth++
	defer func() { c.dispatchDepth-- }()
	resT := resultType(sig)
	nres := sig.Results().Len()
	resObj := types.NewVar(call.Pos(), c.pkg.Types, fmt.Sprintf("dispatch%d", c.nfresh), types.Typ[types.Int])
	c.nfresh++
	var outs []*State
	notKnown := "true"
	for _, im := range impls {
		cond := c.tagTest(recv.S, im.t)
		notKnown = sAnd(notKnown, sNot(cond))
		br := st.clone()
		br.pc = c.define("pc", "Bool", sAnd(st.pc, cond))
		pv := c.payload(recv.S, im.t)
		pv.T = im.t
		for _, f := range c.typeFacts(pv) {
			c.assume(br, f)
		}
		msig := im.m.Type().(*types.Signature)
		rv := pv
		// value-receiver method reached through a pointer implementation
		if p, isPtr := im.t.Underlying().(*types.Pointer); isPtr {
			if _, wantPtr := msig.Recv().Type().Underlying().(*types.Pointer); !wantPtr {
				rv = c.readPtr(br, p.Elem(), pv.S)
			}
		}
		v := c.callFunc(br, im.m, msig, &rv, im.t, args, call)
		if nres > 0 {
			br.env[resObj] = v
		}
		outs = append(outs, br)
	}
	// foreign implementation
	other := st.clone()
	other.pc = c.define("pc", "Bool", sAnd(st.pc, notKnown))
	if nres > 0 {
		v := c.freshVal(resT, "res_"+fn.Name())
		for _, f := range c.typeFacts(v) {
			c.assume(other, f)
		}
		other.env[resObj] = v
	}
	c.unmodelled["call of "+fn.Name()+" on a receiver whose dynamic type is not one of the repository's implementations: result unconstrained"] = true
	outs = append(outs, other)
	m := c.merge(outs)
	if m == nil {
		st.pc = "false"
		return c.freshVal(resT, "noreturn"), true
	}
	var res Val
	if nres > 0 {
		res = m.env[resObj]
		delete(m.env, resObj)
	} else {
		res = Val{K: KUnit}
	}
	st.pc, st.heaps, st.alloc, st.env = m.pc, m.heaps, m.alloc, m.env
	return res, true
}

var heapItemRe = regexp.MustCompile(`^heap\(([\w.]+)\)$`)

// callLitByContract calls a function literal through its contract; the names of its captured
// variables are bound to their values at the point where the literal was created.
func (c *FnCtx) callLitByContract(st *State, fs *FuncSpec, sig *types.Signature, lit *closureLit, args []Val, pos token.Pos, key string) Val {
	saved := c.capturedBinding
	c.capturedBinding = lit.captured
	defer func() { c.capturedBinding = saved }()
	return c.callByContract(st, fs, sig, nil, args, pos, key)
}
